#!/usr/bin/env python3
"""Writes MANIFEST.json from the table below (kept in one place so it stays valid)."""
import json, os
VERIF = os.path.dirname(os.path.dirname(os.path.abspath(__file__)))
ALL = ["C%02d" % i for i in range(1, 21)]

CLAIMED = {
 "C06": dict(
   text="Machine-checked proof (Coq 8.16) that the model of src/rect.c satisfies the property for ALL pairs of non-empty "
        "rectangles over Z (every edge ordering, any translation): intersect exact, add <=3 / subtract <=4 pairwise-disjoint "
        "non-empty pieces covering exactly union / difference, contains/intersects equal to their cell-wise definitions. The model "
        "is tied to /repo's current rect.c on every run by a correspondence check that is exhaustive over all 169 Allen ordering "
        "classes (36x36 rectangle pairs x 3 translations x 5 ops) plus random wide pairs, under ASan/UBSan with exact-size output arrays.",
   note="Trusted: Coq kernel; hand-written model RectDefs.v (tied by differential testing, not proof); extraction with ExtrOcamlBasic; "
        "no int overflow. No axioms (Print Assumptions: closed under the global context).",
   design="6/C06", technique="Coq proof (case analysis + lia) over an executable Gallina model; extracted-model vs C differential check; extracted boolean spec as oracle"),
 "C05": dict(
   text="Machine-checked proof (Coq 8.16, no axioms) of TOTAL correctness of the model of src/rectset.c for every finite history of add/subtract/"
        "translate/clear with non-empty rectangles: the model terminates (C05_add_terminates, C05_subtract_terminates, C05_total), keeps the array "
        "non-empty / pairwise disjoint / sorted by (top,left), covers exactly the reference region (C05_history by induction over arbitrary op lists), "
        "and contains/intersects are exact (C05_contains, C05_intersects). The oracle judging the C's output is proved sound (C05_oracle_sound). "
        "Model tied to /repo's rectset.c on every run: all <=3-op histories on a 4x4 grid, lattice-aligned and random histories, every query rectangle, ASan/UBSan.",
   note="Holds for the repaired code (fix: e28fb20); the pinned code is refuted in Coq by C05_refuted_stale_rect and the witness is replayed on every run. "
        "Trusted: Coq kernel; hand-written model RectSetDefs.v tied by differential testing; extraction (ExtrOcamlBasic); no int overflow; malloc succeeds. "
        "Invariant includes two structural clauses (sep, novm) beyond the property text; they are established by add, needed for exactness of contains.",
   design="6/C05", technique="Coq invariant + refinement to a cell-set region over op lists; well-founded measure for termination; extracted-model vs C differential check; proved-sound extracted oracle"),
 "C07": dict(
   text="Machine-checked proof (Coq 8.16, no axioms) that the model of src/utf8.c + src/unicode.h satisfies the property for ALL byte strings (well-formed "
        "or not, NUL-terminated or length-bounded), all initial positions, all limit combinations and all code points < 0x200000: counting = longest prefix "
        "of grapheme units within every limit (C07_count_is_spec), counters consistent, resumable, never reads past the bound/terminator (Fault-ing accessor + "
        "non-interference), error value exactly at control/DEL/invalid lead/truncated sequence, put-then-count round trip on the whole domain (symbolic), "
        "binary search = membership for the width tables RE-TRANSLATED from the sources on every run. Tie: exhaustive over all 2^21 code points, all byte "
        "strings of length <=2 and length 3 over a class-boundary alphabet, structured/malformed/resumption cases, each string ending at a PROT_NONE guard page.",
   note="Trusted: Coq kernel; hand-written model Utf8Defs.v (tied by differential testing); Utf8Spec.v as the reading of the property (errors judged on decoded "
        "values: a non-continuation byte in continuation position is payload, as t/01utf8.c pins); tools/tables/width.py; extraction; 0 <= pos->bytes <= len. "
        "Width tables are taken as given (no Unicode database in the sandbox) except for the widths the library itself documents (C07_documented_widths).",
   design="6/C07", technique="Coq refinement proof (byte loop with Fault-ing reads = walk over decoded units = longest fitting prefix); tables re-translated from C and re-checked by vm_compute; differential check with guard pages; extracted boolean spec as oracle"),
 "C11": dict(
   text="Machine-checked proof (Coq 8.16, no axioms) over the model of term.c's output path, for every buffer size (incl. none) and every history of "
        "writes, formatted writes and flushes: delivered chunks ++ pending = the unbuffered stream (C11_stream, C11_transparent, stated per sink: function preferred over descriptor in both write_str and flush), every chunk 0 < len <= cap "
        "(C11_chunk_bound_run), flush drains (C11_flush_drains), the chunk loop terminates (C11_terminates); the extracted checker is proved sound "
        "(C11_checker_sound). Tie: exhaustive sizes 0..6 x <=4 writes of 0..8 bytes x flush masks, random large histories, and the descriptor path through a packet-mode pipe.",
   note="Assumes the buffer is resized only while nothing is pending (as the property states) and that an output function or descriptor is set; vsnprintf and "
        "short write(2) are outside the model. Trusted: Coq kernel; hand-written model OutBufDefs.v tied by differential testing; extraction.",
   design="6/C11", technique="Coq invariant (pending < cap) + induction over histories; refinement to the byte stream; extracted checker proved sound w.r.t. the model; differential check against the C"),
 "C19": dict(
   text="Machine-checked proof (Coq 8.16, no axioms) about the model of src/pen.c: set-then-get/has for all representable values with frame condition, clear, "
        "defaults, attribute-wise law of copy with/without overwrite incl. the RGB secondary (C19_copy), clone equivalence, equiv = 'every attribute reads "
        "the same' hence an equivalence relation (C19_equiv_iff, C19_equiv_equivalence), RGB needs an index and is dropped on re-set, colour descriptions "
        "accepted = direct calls / rejected = no effect for EVERY string (C19_desc_*), and refinement of every history over three pens to a dictionary spec "
        "(C19_refines). Bit-field widths and the colour-name table are RE-TRANSLATED from pen.c on every run. Tie: value sweeps -300..600 per setter, copy "
        "scope, description strings exhaustive over small alphabets, random histories, all getters dumped after each op.",
   note="Holds for the repaired code (fix: 5a9f7aa, names were matched as prefixes); pinned behaviour refuted by C19_desc_unfixed_refuted, witnesses replayed "
        "every run. sscanf (%d, %2hhx) is modelled after glibc and compared on every run; event bindings are not modelled. Trusted: Coq kernel; model PenDefs.v; "
        "tools/tables/colours.py; extraction.",
   design="6/C19", technique="Coq algebraic laws on a record model with explicit bit-field wraps; refinement of histories to a dictionary spec; grammar recogniser proved sound against the parser; differential check; extracted dictionary checker as oracle"),
 "C16": dict(
   text="Machine-checked proof (Coq 8.16, no axioms) that for EVERY handler environment (handlers that bind, unbind and emit re-entrantly at any depth), "
        "every history of bind (all flags) / unbind / emit / emit-whilefalse / destroy and every fuel for which the run completes, the trace of the model of "
        "src/bindings.c (tombstones, iteration guard, deferred sweep) is accepted by a reference monitor over a plain list of live bindings with immediate "
        "removal (C16_trace_accepted), with corollaries C16_only_live, C16_once_in_order, C16_all_served, C16_unbind_once, C16_destroy, C16_ids_unique, "
        "C16_sweep, C16_no_fault and the refinement C16_refines (log equality with a tombstone-free machine). Tie: ~340k histories per quick run (exhaustive "
        "small scopes + random), direct calls and through TickitTerm/TickitPen, under ASan/UBSan with list dumps; the extracted monitor judges the C's own traces.",
   note="Holds for the repaired code (fix: c45b938, c87ed4c, 8540d45, 1cbdd4b); pinned behaviour refuted in Coq (C16_oneshot_*_refuted), witnesses replayed "
        "every run. 'Newest first' is read as reverse list order (man/tickit.7). Assumes event numbers >= 0 and destroy only at top level; no termination "
        "theorem (a handler that re-binds itself on every call loops in C and model alike). Trusted: Coq kernel; model BindDefs.v; monitor BindSpec.v; extraction.",
   design="6/C16", technique="Coq fuelled re-entrant interpreter over a Section-variable handler environment; simulation proof against a reference monitor; extracted-model vs C differential check; extracted monitor as oracle"),
 "C17": dict(
   text="Machine-checked proof (Coq 8.16, no axioms) that the model of the timer / deferred-callback machinery of src/tickit.c REFINES a priority-queue "
        "specification: C17_refines (equality of the whole observation log - callbacks with flags, iteration, clock, ppoll timeouts, destroy notifications - "
        "for EVERY callback environment, script of register/cancel operations from outside or inside callbacks, and clock sequence), with C17_at_most_once, "
        "C17_order, C17_never_early, C17_later_iteration, C17_iteration_completes, C17_destroy_notifies as theorems. Tie: the real Tickit instance under a "
        "virtual clock (gettimeofday/ppoll wrapped at link time), ~61k scripted histories per quick run, ASan/UBSan + per-case leak check.",
   note="Holds for the repaired code (fix: 6644250, 1faa61d); the pinned code is refuted by five C17_refuted_* witnesses, replayed every run. Equality of the "
        "spec's two formulations is cross-checked by the oracle on every case, not proved. Trusted: Coq kernel; model LoopDefs.v tied by differential testing; "
        "extraction; the harness's clock/ppoll wrappers.",
   design="6/C17", technique="Coq refinement proof (log equality with a priority-queue spec) over all callback environments; extracted model and spec run against the real instance under a virtual clock; ASan/LSan"),
 "C18": dict(
   text="PARTIAL by nature (kernel signal/ppoll semantics are a stated hypothesis). Machine-checked proof (Coq 8.16, no axioms) over the model of one iteration "
        "of src/evloop-default.c as a function of the ppoll outcome: the handler's pending set is empty after every iteration for every arrival point and every "
        "errno side effect (C18_signal_reaches, C18_interrupted_iteration_dispatches), every IO watch invoked was live when ppoll returned and gets exactly the "
        "conditions of its own descriptor (C18_io_exact), a cancelled watch is never invoked (C18_cancelled_not_invoked), poll-slot table hygiene. Tie: real "
        "signals raised and the loop's real handler run in the harness, with ppoll replaced at link time by a function that plays the kernel (mask swap, EINTR, "
        "readiness) at scripted points; callbacks perturb errno, cancel and re-register.",
   note="Holds for the repaired code (fix: b5fb3ed, e0a376f, 5dc9719, 5568265, 2af2153); pinned code refuted (C18_*_refuted_pinned). Hypothesis: a watched "
        "signal is blocked outside ppoll and delivered by the next ppoll, which returns EINTR. Refinement to the snapshot specification is tested, not proved; "
        "C18_all_watchers_invoked holds for signal callbacks that do not themselves change the signal watch list. The self-pipe fallback of non-default loops is not modelled.",
   design="6/C18", technique="Coq model + invariants per iteration over all ppoll outcomes; link-time ppoll replacement raising real signals; extracted-model vs C differential check; ASan/UBSan"),
 "C20": dict(
   text="PARTIAL by nature (libtermkey's tokenizer is trusted, as the property says). Machine-checked proof (Coq 8.16, no axioms): for ANY tokenizer that is "
        "prefix-stable and consumes only with a key, pushing chunks c1..cn through the model of tickit_term_input_push_bytes / the drain loop emits the same "
        "events as pushing their concatenation (C20_chunking, bounded tokenizer buffer included); key->event translation, zero-based positions, wheel, text vs "
        "key (C20_events_of_keys, C20_positions, C20_wheel, C20_text_and_keys); a button-less release reports exactly the held buttons once each and the record "
        "returns to empty (C20_held, C20_release_all). Tie: real terminals (xterm, xterm-vt220) fed every 2-cut, byte-wise and random k-cuts of streams of "
        "text / modified keys / SGR + legacy mouse / status replies; whole-vs-fragmented logs and the model fed with the system libtermkey's own tokenization.",
   note="Holds for the repaired code (fix: c16018e: input beyond libtermkey's 256-byte buffer was dropped when pushed in one call); pinned code refuted "
        "(C20_chunking_refuted_pinned). The tokenizer hypotheses are exercised (not proved) on every run. Inter-byte timeouts are outside the property's quantifier.",
   design="6/C20", technique="Coq proof over an abstract tokenizer (Section variable with explicit hypotheses); real terminal fed all 2-cuts and random k-cuts; reference tokenization by the system libtermkey; ASan/UBSan"),
 "C09": dict(
   text="Machine-checked proof (Coq 8.16, no axioms) against a Coq SPECIFICATION of a VT-conformant screen (VT.v: grid, cursor with pending wrap, DECSTBM/"
        "DECSLRM margins, ICH/DCH/IL/DL/DECIC/DECDC, ECH, SGR): for every screen size, every in-range request and every capability combination the bytes "
        "of the xterm driver model, lexed (lex(render ts) = ts, C09_lex_render/C09_bytes) and run on the VT, have exactly the requested effect: C09_goto, "
        "C09_move, C09_print, C09_clear, C09_scroll (every strategy: moves exactly the rectangle, blanks the vacated cells, touches nothing else, no "
        "margins left), C09_scroll_fail_silent, C09_erase_partial, and C09_sequence_partial by induction over arbitrary request lists. Tie: the real xterm "
        "driver with capabilities set through the real probing path, model bytes compared byte-for-byte with the C's, the C's bytes judged by the extracted VT.",
   note="Holds for the repaired code (fix: a5d58a0, ddb4d18). One recorded known finding (C09-erasech-rv-right-edge): the erase/sequence theorems exclude exactly "
        "the trigger class (reverse-video erase, cursor to stay, ending at the right edge), which is refuted by C09_erase_refuted. Trusted: VT.v as the reading of "
        "DEC STD 070 / xterm ctlseqs; Csi.v; model XtermDefs.v tied by differential testing; extraction; in-range arguments as the property states.",
   design="6/C09", technique="Coq proof of driver-model bytes against an in-Coq VT screen specification (lexer/renderer round trip + per-request effect theorems + induction over sequences); byte-exact differential check with the real driver"),
 "C10": dict(
   text="Machine-checked proof (Coq 8.16, no axioms): invariant between the cached pen and the VT's SGR state, preserved by every setpen/chpen for every colour "
        "capability (8/16/256/RGB), both sub-parameter separators and every pen (C10_setpen, C10_chpen, C10_history by induction over arbitrary pen histories, "
        "C10_rendition: the VT's rendition equals the logical pen projected through palette conversion / RGB capability), C10_noop_silent (no bytes when "
        "nothing changes), C10_params_fit against the array capacity RE-TRANSLATED from the source on every run (and C10_params_fit_tight: 19 are needed). "
        "Palette table re-translated from xterm-palette.inc. Tie: byte-exact comparison with the real xterm driver, and a harness driver with configurable "
        "colour count for the down-conversion layer of term.c.",
   note="Holds for the repaired code (fix: a693370, 8c332bb, 1d790d8). Styles with no SGR (SIZEPOS small, curly underline without colon support, altfont 10) "
        "are projected to what is representable, as stated in the spec. Trusted: VT.v SGR semantics; models TermPenDefs.v/XtermDefs.v tied by differential "
        "testing; tools/tables/palette.py; extraction.",
   design="6/C10", technique="Coq invariant proof (cached pen vs VT SGR state) by induction over pen histories; tables and array capacity re-translated from C; byte-exact differential check"),
 "C12": dict(
   text="Machine-checked proof (Coq 8.16, no axioms) over the model of the xterm driver's mode shadow, setctl/getctl, pause/resume/teardown and the toplevel's "
        "setup: for EVERY history of control settings, pen changes and pause/resume cycles ending in teardown or destruction, the VT interpreting the whole "
        "output ends in its initial mode state and default rendition, resume re-establishes exactly the logical modes and pen, and getctl reads the value "
        "last set - C12_history_nokp / C12_balanced_nokp / C12_toplevel_balanced_nokp with the application keypad left out of the comparison, "
        "C12_history_full_partial at full strength for histories that never switch the keypad on. Tie: byte-exact comparison with the real driver and with "
        "a real Tickit instance's setup/teardown.",
   note="Holds for the repaired code (fix: edcc019). One recorded known finding (C12-keypad-app-not-recorded, refuted by C12_history_refuted / "
        "C12_getctl_refuted; t/60 pins the deviant teardown bytes): attributed only when the case switches the keypad on AND the oracle passes it with the "
        "keypad masked. Assumes the terminal starts in its power-on mode state. Trusted: VT.v mode semantics; model; extraction.",
   design="6/C12", technique="Coq proof over all control/pen/pause histories against VT mode state; byte-exact differential check with the real driver and toplevel instance; masked oracle for the recorded finding"),
 "C08": dict(
   text="PARTIAL by nature (memory safety is a run-time fact). Machine-checked proof (Coq 8.16, no axioms) over a HEAP-LEVEL ownership model of window.c "
        "(cells with parent/first_child/next/refcount/closed fields, restack-queue nodes, alloc/free, every access to a freed or unallocated address = Fault): "
        "for every event-free history, of any length, of a well-formed client (heap-independent ghost discipline link+extra references) the model never "
        "faults (C08_no_fault_partial) and when every reference is dropped no window or queue cell stays allocated (C08_all_released_partial); heap invariant "
        "preserved by every call (C08_step_partial), unref/destroy by mutual induction (C08_unref_destroy), purge completeness (C08_purge_complete), and the "
        "copy-out bound for every text and length (C08_copy_bounded). Tie at the level of memory events: a lifecycle explorer over ALL object kinds (pens, "
        "strings, render buffers, terminals, windows incl. key/mouse handlers that close/unref themselves or others) runs every case in its own process under "
        "ASan/UBSan/LSan with exact allocation accounting; the model's verdict (Ok / Fault kind / leak) must equal the sanitizer's.",
   note="Holds for the repaired code (fix: 1973d97, 77327ff, 09b4b0d, 36efd83, 28dc336; also covered: a693370 chpen params). Pinned code refuted in Coq "
        "(C08_*_refuted witnesses). One recorded known finding (C08-mockterm-display-text-nul; t/20 relies on it). Key/mouse dispatch with re-entrant handlers is "
        "in the executable model and the correspondence, not in the proved invariant; termination (fuel bound) not proved. Actual C accesses are checked by "
        "sanitizers, not proved.",
   design="6/C08", technique="Coq state-and-fault monad over an explicit heap, list-segment reasoning, mutual induction for unref/destroy; sanitizer-backed correspondence (model faults/leaks iff ASan/LSan reports), fork per case"),
 "C01": dict(
   text="Machine-checked proof (Coq 8.16, no axioms) over the model of src/window.c on the PROVED rectangle-set model of C05 (RectSetDefs.v), an abstract per-cell render buffer and a terminal with an ARBITRARY scroll oracle (accept / partially accept / refuse): do_expose paints exactly the painter's-model composition for any tree (C01_do_expose_paints); a flush - with any pending restack queue, and with expose handlers that RE-ENTER the API (show/hide/expose/restack, close or destroy of any window incl. their own) - re-establishes 'every cell shows the composition or lies in the damage' with the flags consistent (C01_flush, C01_reentrant_flush, C01_reentrant_flags); every operation of the alphabet new/close/show/hide/queued+applied restacks/geometry changes with their exposes/expose/focus/cursor setters/terminal resize/scroll/scrollrect/scroll_with_children preserves the invariant (C01_preserved_all, C01_scroll*, C01_damage_inv), hence by induction EVERY history with flushes at arbitrary points ends with every cell equal to the composition (C01_history, C01_history_flushed). Tie: three-way correspondence (C vs model vs extracted `compose` oracle) over exhaustive <=3-op histories on 6 base trees x 3 terminals + random histories with 5 scroll policies and re-entrant handlers, on the mock terminal and a harness grid terminal.",
   note="Holds for the repaired code (fix: e6c2760, e28fb20, fe47d4e, 2843ffd); pinned behaviour refuted by C01_refuted_18. Side conditions: visible windows have non-empty rectangles (scrolls); ids unique over the forest (an invariant of the history model, C01_forest_unique_*); handlers repaint what they are asked and the application exposes old and new areas after a geometry change (the property's provisos). Trusted: Coq kernel; hand-written model tied by differential testing; the abstract render buffer/terminal (exact for single-width content and line cells); extraction.",
   design="6/C01-C02", technique="Coq invariant proof (ScreenInv) by induction over operation histories, tree induction for do_expose; extracted compose as oracle; differential check on mock and harness grid terminals"),
 "C02": dict(
   text="Machine-checked proof (Coq 8.16, no axioms) over the model of window.c's expose/flush on an abstract per-cell render buffer: for ALL window trees, damage lists and ALL drawing programs a handler may run (text, erase, char, lines, eraserect, skip, clear at any coordinates, negative and beyond the window) the only terminal cells a flush changes lie in the damage and belong, in the composition, to the window that drew them, at the window-relative position (C02_confined, C02_programs); stronger, every cell shows exactly what its owner's program alone leaves there, line segments included (C02_exact, C02_lines); every rectangle handed to a handler lies within its window (C02_rect_in_bounds); rectangles handed to one window in one flush are pairwise disjoint, unconditionally, from the C05 invariant of the damage set (C02_rects_disjoint, C02_damage_disjoint). Tie: scripted hostile handlers (incl. line drawing in equivalent pens, savepen/restore brackets) on the mock terminal and a harness-owned grid terminal; grid before/after each flush, tree and all handed rectangles compared.",
   note='Holds for the repaired code (fix: 1e6587a; pinned refuted by C02_refuted_27). Trusted: Coq kernel; model; abstract render buffer (exact for single-width content and line cells); extraction.',
   design="6/C01-C02", technique="Coq proof over arbitrary drawing programs via clip/mask/translation bookkeeping of the abstract render buffer; extracted `owner` as oracle; differential check"),
 "C14": dict(
   text="Machine-checked proof (Coq 8.16, no axioms) over the model of window.c's input routing: for every tree (overlaps, nesting, hidden subtrees, stealing windows, focus placement), every key / mouse event at every cell and every claim pattern, the windows offered the event are exactly the prefix of key_order / mouse_order up to the first claimer, with positions relative to the receiver (C14_key, C14_mouse, C14_mouse_relative, C14_term_*); hidden windows and their descendants never receive input (C14_hidden_never); synthesised drag events are well-bracketed w.r.t. the press (C14_drag); a handler closing or destroying ITSELF or ANY OTHER non-root window during routing neither crashes nor derails delivery to the rest (C14_mutation_no_crash, C14_mutation_rest: multiset for keys, order for mouse; C14_mutation_destroy, C14_mutation_term_mouse). Tie: delivery logs over exhaustive cell x claimer sweeps and random trees with scripted close/destroy inside handlers under ASan.",
   note='Holds for the repaired code (fix: abd7bb4, 36efd83, 1edb315). The mutation theorems assume one armed mutation per event whose target is a non-root window present in the tree. Trusted: Coq kernel; model; extraction.',
   design="6/C14", technique="Coq proof over a fuel-based pointer-following model against structural order specifications; extracted spec as oracle; differential check with handlers mutating the tree"),
 "C15": dict(
   text="Machine-checked proof (Coq 8.16, no axioms) over the model of window.c's focus and cursor code: after a flush (any restack queue) the terminal cursor is exactly where cursor_spec puts it - end of the focus chain focused, chain visible, cursor enabled, cell inside every ancestor and owned by that window in the composition - or hidden (C15_restore, C15_after_flush, C15_flush); every operation that can change cursor_spec leaves a restore request or damage (C15_requested), hence for EVERY history of take-focus, cursor position/visibility/shape changes, show/hide, restack, move, close and expose the cursor is right after each flush (C15_history, C15_history_flushed); take_focus emits every OUT before every IN and exactly the events the focus specification demands, parents that asked are told of both (C15_focus_order, C15_focus_events). Tie: cursor state after every flush and focus event logs over exhaustive <=3-op sequences on 3 base trees + random histories, on the mock terminal and a harness grid driver.",
   note='Holds for the repaired code (fix: 5f3c28f, b19a835, f73837d, 27ae864; pinned refuted by C15_refuted_19). The history alphabet excludes scrolls and terminal resize (they do not touch focus state; covered by the correspondence). Trusted: Coq kernel; model; extraction.',
   design="6/C15", technique="Coq proof (structural recursion over the tree, path induction) against cursor_spec/focus_spec; extracted boolean spec as oracle; differential check"),
 "C03": dict(
   text="Machine-checked proof (Coq 8.16, no axioms) that the model of src/renderbuffer.c's drawing operations REFINES a per-cell last-writer-wins specification "
        "for ALL programs: every operation (text/erase/skip/char/line/clear/rect forms, cursor-relative forms, translate, clip, mask, setpen, goto, "
        "save/savepen/restore at any nesting), from any state satisfying the span invariant, with any (negative, out-of-range) coordinates, never faults, "
        "keeps every row a well-formed tiling by spans (the make_span lemma), and leaves exactly the cells the specification prescribes (C03_refines, "
        "C03_program by induction); corollaries C03_confined, C03_restore, C03_clip_shrinks, C03_cursor_advances. Tie: correspondence on the RAW span grid "
        "(cell structs of the real TickitRenderBuffer) over exhaustive <=3-op programs on 2x6, random and malformed programs, ASan/UBSan; three-way C / "
        "concrete model / abstract spec.",
   note="Holds for the repaired code (fix: 6b886f7, b8cb536, and the put_char/put_substr forms of 92f6326, 74f3a76). Text width is modelled by a restricted width "
        "function (ASCII, Latin-1, U+0300-036F, U+FF01-FF60) and pens by 4 attributes; the harness only feeds those classes. Trusted: Coq kernel; model "
        "RBDefs.v tied by differential testing of raw structs; extraction.",
   design="6/C03", technique="Coq refinement proof (row-level make_span lemma, pointwise grid reasoning, induction over programs); extracted-model vs C differential check on raw cell structs; extracted boolean spec as oracle"),
 "C04": dict(
   text="Machine-checked proof (Coq 8.16, no axioms) of the FULL property on the model: C04_flush_full / C04_flush_full_reachable - for every buffer a drawing program reaches (C03/C13 operations), flushed onto any terminal at least as large, with arbitrary prior content, cursor and pen, erasech(MAYBE) moving the cursor or not, and any mix of zero-, single- and double-width characters cut at arbitrary columns, the terminal run succeeds and every text/erase/char/line cell appears at its own line and column with its own pen, skipped cells are untouched, and the buffer is left empty with all auxiliary state reset; C04_flush_columns (every print/erase issued at a tracked position; covered cells are exactly the non-skip cells, each once), C04_text_columns (a span of n columns is flushed as exactly n columns), C04_flush_payload (through the xterm driver the hidden part of a string is never sent), C04_glyphs (all 255 line masks of the glyph table RE-TRANSLATED from src/linechars.inc have exactly the mask's arms). Tie: exact terminal operation logs and final grids of the C vs the executable flush model, and the C's observations vs the extracted cell-wise spec, over exhaustive small programs, all masks, width-mix texts cut at every column, on the mock terminal (both legal MAYBE behaviours), a harness grid driver and the xterm driver.",
   note="Holds for the repaired code (fix: 64e35ba, 92f6326, a61eeac). Assumes, as the property states, that the terminal advances by the library's own widths (the mock terminal's grapheme loop is modelled and proved equal to that layout: C04_print_layout). Restricted width function (ASCII, Latin-1, U+0300-036F, U+FF01-FF60) and 4-attribute pens as in C03. Trusted: Coq kernel; models RBDefs/RBFlushDefs tied by differential testing; the arms table (reading of the Unicode box-drawing block); tools/tables/linechars.py; extraction. The xterm driver's escape encoding is C09's matter.",
   design="6/C04", technique="Coq simulation proof of the flush op list against a terminal model (cursor tracking from unknown, width layout, overlay on arbitrary prior content) on top of the C03 refinement; vm_compute enumeration of the re-translated glyph table; differential check of operation logs and grids; extracted cell-wise spec as oracle"),
 "C13": dict(
   text="Machine-checked proof (Coq 8.16, no axioms): the model of copyrect (within one buffer, no translation in force), moverect and blit refines the cell-wise "
        "specification for EVERY well-formed reachable buffer content, every source rectangle inside the buffer and every destination - all overlaps, all "
        "iteration directions, rectangle edges anywhere relative to text/erase/line runs: each destination cell that clip and mask allow holds what the source "
        "cell at the same offset held BEFORE the call (pen completed from the current pen, line segments merged), every other cell is unchanged, moverect "
        "additionally leaves exactly source-minus-destination skipped, no fault occurs, rows stay well-formed, and cursor, translation, clip, pen and the "
        "entire saved-state stack are untouched (C13_copy, C13_move, C13_blit, C13_aux_unchanged). Tie: every source/destination rectangle pair inside a 2x6 "
        "buffer for nine prepared contents, random programs and blits, on raw cell structs, nested in a caller save so an unbalanced restore is observable.",
   note="Holds for the repaired code (fix: 74f3a76). Uses the C03 refinement lemmas; same restricted width function and pens as C03. Trusted: Coq kernel; models "
        "RBDefs/RBCopyDefs tied by differential testing; extraction.",
   design="6/C13", technique="Coq refinement proof of the span copy loop (balance/termination/no-fault + cell-wise effect) on top of the C03 lemmas; exhaustive rectangle-pair differential check; extracted cell-wise spec as oracle"),
}

# later rounds: additions to the texts above (kept separate so the history of claims stays readable)
APPEND = {
 "C03": dict(note=" UPDATE: the width restriction and the 4-attribute pens are lifted - text width is the C07 model's width function over the tables re-translated from the sources (C03_text_valid_is_utf8, C03_text_count_is_utf8 tie the code-point-level text model to C07's byte-level counting) and pens are C19's attribute maps (C03_pen_copy_is_C19, C03_pen_equiv_is_C19); texts are well-formed UTF-8 over code points 1..0x1FFFFF; the generator feeds every table-interval boundary and all ten pen attributes with RGB secondaries."),
 "C04": dict(note=" UPDATE: width function and pens are now the C07 / C19 models (see C03); the mock terminal's print follows the repaired mtd_print (fix: a97d737, 303b3d3)."),
 "C13": dict(note=" UPDATE: width function and pens are now the C07 / C19 models (see C03)."),
 "C01": dict(text=" END TO END: the same flush implemented over the CONCRETE render-buffer model of C03 (span grid), flushed by the C04 flush model onto the C04 terminal, leaves every terminal cell equal to the composition (C01_end_to_end, C01_end_to_end_sim, C01_end_to_end_total), and scroll requests are discharged against the REAL xterm driver's bytes on the VT specification of C09 (C01_scroll_xterm, C01_history_xterm)."),
 "C02": dict(text=" END TO END over the concrete render buffer and flush models: C02_end_to_end, C02_end_to_end_confined, C02_buffer_is_spec."),
 "C09": dict(text=" Also: C09_scroll_exact (cell-exact grid shift), C09_oracle_sound, and the COMPOSITION with C04: C04_C09_flush_on_vt - the VT run of the driver's bytes for the flush of any reachable render buffer shows the buffer's cells with their pens' renditions (for printable-ASCII text and index-colour / bold / underline pens)."),
 "C08": dict(text=" UPDATE: EVENTS are now inside the proved invariant - key, mouse/drag, expose, focus, geomchange handlers making arbitrary re-entrant calls (closing / unreferencing themselves or others), reposition, terminal resize: a faulting run implies the client left the discipline (C08_no_fault_events, C08_dispatch_invariant: refcount = client refs + dispatch-frame refs, frames released innermost first); heap-level twin of bindings.c simulating C16's model (C08_bindings_twin_*); pen/string reference counts of the render buffer = number of holders for every program (C08_refcount_exact_penstack).",
            note=" UPDATE: further repairs 92040ef..a791942 (references held during every kind of dispatch; destruction not re-entrant). Window DESTROY handlers that make calls are explored under the sanitizers, not modelled; no fuel bound (refuted once events are allowed); the bridge between the oracle's predictive discipline and the trace discipline is proved without frame references and tested with them."),
 "C12": dict(text=" Also for terminals that ANSWER the start-up probes at any later read (C12_toplevel_reports_nokp).", note=" Further repair d11ff37 (stale probe replies no longer overwrite the shadow)."),
 "C17": dict(text=" Also: one specification (C17_spec_formulations_agree) and a HEAP-LEVEL twin of the watch lists with Fault on any access to a freed node: C17_heap_safe (no fault, no leak, same log) for every script."),
 "C18": dict(text=" Also: C18_refines (log equality with the snapshot specification for every script and ppoll outcome stream), callbacks that stop the loop, slot reuse (C18_watched_signals_exact, C18_dispatch_covers), the self-pipe fallback (C18_fallback_*)."),
 "C20": dict(text=" Also: C20_timed_chunking (fragments separated by gaps below the wait time, any handler time), and the hypotheses discharged for a concrete reference tokenizer (C20_reference_tokenizer, C20_chunking_reference)."),
}

# final audit: notes REPLACED where earlier texts had become contradictory, qualifiers added
REPLACE_NOTE = {
 "C03": "Holds for the repaired code (fix: 6b886f7, b8cb536, and the put_char/put_substr forms of 92f6326, 74f3a76). Text width is the C07 model's width function over the tables re-translated from the sources (C03_text_valid_is_utf8, C03_text_count_is_utf8 tie the code-point-level text model to C07's byte-level counting) and pens are C19's attribute maps (C03_pen_copy_is_C19, C03_pen_equiv_is_C19); texts are well-formed UTF-8 over code points 1..0x1FFFFF (ill-formed bytes are C07's domain). Trusted: Coq kernel; model RBDefs.v tied by differential testing of raw structs; extraction.",
 "C04": "Holds for the repaired code (fix: 64e35ba, 92f6326, a61eeac; mock terminal print a97d737, 303b3d3). Assumes, as the property states, that the terminal advances by the library's own widths (the mock terminal's grapheme loop is modelled and proved equal to that layout: C04_print_layout). For the two cells of a half-visible wide grapheme C04_flush_full only fixes the pen (any text); the exact content is in C04_flush_shown. Width function and pens are the C07 / C19 models (see C03). Trusted: Coq kernel; models RBDefs/RBFlushDefs tied by differential testing; the arms table (reading of the Unicode box-drawing block); tools/tables/linechars.py; extraction. The xterm driver's escape encoding is C09's matter (composition: C04_C09_flush_on_vt in Properties_C09.v).",
 "C13": "Holds for the repaired code (fix: 74f3a76). Uses the C03 refinement lemmas; width function and pens are the C07 / C19 models (see C03). The aux-unchanged theorem for moverect is conditional on an Ok result; return is proved for non-empty rectangles (C13_move_full). Trusted: Coq kernel; models RBDefs/RBCopyDefs tied by differential testing; extraction.",
 "C08": "PARTIAL by nature: the actual C accesses are checked by sanitizers (one process per case, plus a sweep over the other properties' harnesses), not proved. Holds for the repaired code (fix: 1973d97, 77327ff, 09b4b0d, 36efd83, 28dc336, 1edb315, 92040ef..a791942: references held during every kind of dispatch; destruction not re-entrant); pinned code refuted in Coq (C08_*_refuted witnesses). One recorded known finding (C08-mockterm-display-text-nul; t/20 relies on it). Inside the proved invariant: event-free histories AND key, mouse/drag, expose, focus, geomchange events with arbitrary re-entrant handlers (C08_no_fault = full statement with the oracle's predictive discipline; the bridge to the trace discipline with dispatch-frame references is a theorem, C08_bridge). Outside every theorem: window DESTROY handlers that make calls (modelled and compared, not proved); no explicit fuel bound (refuted once events are allowed: C08_fuel_bound_refuted_events; fuel monotonicity is proved). Window geometry is fixed in the heap model; term/pen handler scripts are expanded by the driver (trusted glue).",
 "C17": "Holds for the repaired code (fix: 6644250, 1faa61d, ba3988c, a75654b, ef42dbf, 71fdaf0); the pinned code is refuted by C17_refuted_* witnesses, replayed every run. One specification (C17_spec_formulations_agree proves the two formulations equal). 'Runs exactly once' is C17_at_most_once plus the log equality C17_refines. The heap-level twins are separate per watch kind (timers/deferred: LoopHeap; signal/process walks: LoopChain; IO: LoopIo); nested iterations and DESTROY handlers that register/cancel are an executable model (LoopNest.v) tied by the correspondence only. A DESTROY handler may act only on watches of kinds destroyed later. Trusted: Coq kernel; models tied by differential testing under a virtual clock; extraction; the harness's clock/ppoll/waitpid wrappers.",
 "C18": "PARTIAL by nature: the kernel signal/ppoll contract is a hypothesis (a watched signal is blocked outside ppoll and delivered by the next ppoll, which returns EINTR). Holds for the repaired code (fix: b5fb3ed, e0a376f, 5dc9719, 5568265, 2af2153, 25c7eb9, 26151f4, 89e79c0); pinned code refuted (C18_*_refuted_*). Proved: refinement of the iteration model to the snapshot specification (C18_refines: log equality for every script and ppoll outcome stream, descriptors >= 0), incl. callbacks that cancel/register/stop and the SIGINT watch of tickit_run; the self-pipe fallback refines its own snapshot specification (C18_fallback_refines). C18_signal_reaches alone (pending set empty) would be satisfied by a model that drops signals; its content comes together with C18_refines and C18_all_watchers_invoked. Implementation = model is tested, not proved.",
}
APPEND_NOTE = {
 "C01": " QUALIFIER (audit, then CLOSED): the rectangle-set loops of the window model run on a fuel that is a field of the model state (300 in the extracted model the C is compared with); every history/flush theorem holds for EVERY fuel under the hypothesis that no loop ran out of the state's fuel (r_fault = false), and for EVERY history over the whole alphabet, the three scroll operations with any scroll oracle included, some fuel provably suffices: C01_history_total_all / C01_history_total_flushed_all (there is a fuel such that, with it and every larger one, the run faults nowhere, the invariant holds, and after a final flush every cell shows the composition), from C05's termination theorems for add, subtract and contains, fuel monotonicity (C01_run_fuel_monotone) and progress of _scroll (C01_scroll_progress, C01_step_progress_all: rs_sub_vis, rs_clip, scroll_region, shift_damage and the scroll_one loop, WinFuelTotalScroll.v); non-vacuous for a history with a scroll (C01_history_total_example_sides, C01_history_total_example). The side condition sides_along (fresh ids, no show/hide/geometry change of the root, visible windows non-empty for scrolls, ...) remains, and no explicit bound on the fuel is given. C01_nested_* (a handler that flushes the root or changes geometry) proves the flag and id-uniqueness invariants only, and C01_history_xterm excludes flush and terminal resize.",
 "C02": " QUALIFIER (audit): C02_rects_disjoint has the hypotheses ids_unique and Inv of the damage set, both discharged by C01's invariants (C01_forest_unique_*, C01_damage_inv); the fuel qualifier of C01 applies here too (theorems hold for every fuel, conditional on no loop running out of it).",
 "C15": " QUALIFIER (audit): the fuel qualifier of C01 applies to C15_requested / C15_flush / C15_history* (every fuel, conditional on no rectangle-set loop running out of it; C15_init_any_fuel).",
 "C14": " QUALIFIER (audit, then narrowed): C14_mutation_rest is stated for events that no handler claims; with claimers present: for the mouse, C14_mutation_rest_claim covers every claim pattern in which no window INSIDE the closed subtree claims the event type (claimers outside allowed, before or after the mutating window; in order, return value included; the hypothesis is shown necessary by example); C14_mutation_rest_claim_key / _mouse cover any claimers when the claim stops the routing before the mutating handler is reached; self-close with a claimer is C14_mutation_self_partial. For keys with ARBITRARY claimers (also reached after the mutation ran) C14_mutation_key_claim proves: the routing returns true exactly when a window offered the key claims it, nothing is delivered after a claimer, at most the last window offered the key claims; still open there: that the windows offered the key outside the closed subtree all come from the unmutated order. C14_term_key / C14_term_mouse(_seq) require tree height below the fuel 64 (explicit in the statements).",
 "C09": " QUALIFIER (audit): in a sequence the claim stops at the first out-of-range or excluded request (seq_ok_excl is a nested implication); 'in range' also requires no pending wrap for relative moves, erases and non-empty prints (i.e. the request after a print ending in the last column is out of range unless it is an absolute goto), erase with the cursor to move strictly inside the line, and printable ASCII for print at this level (wider text class in C04_C09_flush_on_vt).",
 "C12": " C12_history_refuted and C12_getctl_refuted have the same statement shape (a history the checker rejects); they differ in the witness (teardown bytes vs. getctl read-back).",
}

NA_REASON = "not yet built in this revision: model/proof/correspondence for this property are scheduled (DESIGN.md section 10)"

def main():
    checks = []
    for pid in ALL:
        if pid not in CLAIMED: continue
        c = dict(CLAIMED[pid])
        for k, v in APPEND.get(pid, {}).items():
            c[k] = c[k] + v
        if pid in REPLACE_NOTE:
            c["note"] = REPLACE_NOTE[pid]
        c["note"] = c["note"] + APPEND_NOTE.get(pid, "")
        c["text"] = (c["text"].replace("(C13_copy, C13_move, C13_blit, C13_aux_unchanged)", "(C13_copy_full, C13_move_full, C13_blit_full with their _reachable forms, C13_*_aux_unchanged)")
                     .replace("(C08_bindings_twin_*)", "(C08_bindings_twin_simulates, C08_bindings_no_fault, C08_bindings_exact, C08_bindings_all_released)")
                     .replace("pairwise disjoint, unconditionally, from", "pairwise disjoint, from"))
        checks.append({
          "property_id": pid,
          "quick_cmd": "./check %s --tier quick" % pid,
          "thorough_cmd": "./check %s --tier thorough" % pid,
          "evidence_file": "/verif/evidence/%s.json" % pid,
          "replay_cmd_template": "./check %s --replay {path}" % pid,
          "engine": "coq-proof+correspondence",
          "level_claimed": {"category": c.get("category", "proof"), "text": c["text"], "design_ref": "DESIGN.md section " + c["design"]},
          "level_note": c["note"],
          "technique": c["technique"],
        })
    m = {
      "version": 1,
      "setup_cmd": "./setup.sh",
      "hooks": {"guard": "LIBTICKIT_VERIF",
                "enable": "harnesses compile /repo's src/*.c with -DLIBTICKIT_VERIF (no source hooks exist; statics are reached by #include of the .c file)",
                "baseline_off_cmd": "make -C /repo -k -j8 test",
                "source_commits": [], "add_only": True},
      "engines": [{"name": "coq-proof+correspondence", "path": "tools/core.py",
                   "serves_properties": sorted(CLAIMED),
                   "kind_free_text": "Coq 8.16 theorems over hand-written executable Gallina models (coq/), models extracted to OCaml and run against the C built from /repo's working tree with ASan/UBSan; extracted boolean specifications as oracle; data tables re-translated from source on every run"}],
      "checks": checks,
      "not_applicable": [{"property_id": p, "reason": NA.get(p, NA_REASON)} for p in ALL if p not in CLAIMED],
      "notes": "See DESIGN.md. ./check <id> prints VIOLATION/KNOWN-FINDING lines per the interface; known_findings.json lists recorded and fixed defects.",
    }
    json.dump(m, open(os.path.join(VERIF, "MANIFEST.json"), "w"), indent=1)

NA = {}
if __name__ == "__main__":
    main()
