#!/usr/bin/env python3
"""core.py -- the check pipeline shared by all properties (DESIGN.md section 3).

  translate tables -> prove (make + Print Assumptions + hygiene) -> extract + build the
  OCaml driver -> build the C harness from /repo's working tree (ASan/UBSan) ->
  correspondence (C vs model, line by line) -> specification oracle on the C's own
  observations -> known findings -> decision, replay file, evidence file.

A property module (tools/props/Cnn.py) supplies generators, classification and the
names of its Coq / OCaml / C parts; everything else is here.
"""
import concurrent.futures as cf
import glob
import hashlib
import importlib
import json
import os
import re
import shutil
import subprocess
import sys
import tempfile
import time

VERIF = os.path.dirname(os.path.dirname(os.path.abspath(__file__)))
REPO = os.environ.get("VERIF_REPO", "/repo")
COQ = os.path.join(VERIF, "coq")
BUILD = os.path.join(VERIF, "build")
NCPU = min(16, os.cpu_count() or 4)

CFLAGS = ["-std=c99", "-g", "-O1", "-fsanitize=address,undefined", "-fno-sanitize-recover=all",
          "-fno-sanitize=vla-bound", "-fno-omit-frame-pointer", "-DLIBTICKIT_VERIF",
          "-D_DEFAULT_SOURCE", "-D_XOPEN_SOURCE=600", "-w"]
LDLIBS = ["-ltermkey", "-lncursesw", "-ltinfo"]
ASAN_ENV = {"ASAN_OPTIONS": "detect_leaks=1:abort_on_error=0:exitcode=77:allocator_may_return_null=1",
            "UBSAN_OPTIONS": "print_stacktrace=1:halt_on_error=1:exitcode=78",
            "LSAN_OPTIONS": "exitcode=79"}

HYGIENE = re.compile(r"\b(Admitted|admit|Axiom|Axioms|Parameter|Parameters|Conjecture|Conjectures|"
                     r"Admit Obligations|bypass_check|Unset Guard Checking|Unset Positivity Checking|"
                     r"Unset Universe Checking|type-in-type|impredicative-set)\b")
STMT = re.compile(r"^\s*(?:Local\s+|Global\s+|#\[[^\]]*\]\s*)*(Theorem|Lemma|Corollary|Example|Fact|Proposition|Remark)\s+(\w+)",
                  re.M)
ALLOWED_AXIOMS = set()   # names of standard-library axioms the development may use; none so far


def log(msg):
    print(msg, flush=True)


def run(cmd, cwd=None, timeout=None, env=None, input=None):
    e = dict(os.environ)
    if env:
        e.update(env)
    try:
        p = subprocess.run(cmd, cwd=cwd, timeout=timeout, env=e, input=input,
                           stdout=subprocess.PIPE, stderr=subprocess.PIPE)
        return p.returncode, p.stdout.decode("utf-8", "replace"), p.stderr.decode("utf-8", "replace")
    except subprocess.TimeoutExpired as ex:
        out = (ex.stdout or b"").decode("utf-8", "replace")
        err = (ex.stderr or b"").decode("utf-8", "replace")
        return 124, out, err + "\nTIMEOUT"


# ---------------------------------------------------------------------------------------
# 1. translator for data tables

def translate_tables():
    """Regenerate coq/Gen_*.v from /repo's current sources (only rewritten when changed)."""
    gt = os.path.join(VERIF, "tools", "gen_tables.py")
    if not os.path.exists(gt):
        return True, ""
    rc, out, err = run([sys.executable, gt, REPO, COQ], timeout=120)
    return rc == 0, (out + err).strip()


# ---------------------------------------------------------------------------------------
# 2. Coq

def coq_project():
    vs = sorted(os.path.basename(p) for p in glob.glob(os.path.join(COQ, "*.v")))
    txt = "-Q . Tickit\n" + "\n".join(vs) + "\n"
    cp = os.path.join(COQ, "_CoqProject")
    old = open(cp).read() if os.path.exists(cp) else None
    if old != txt or not os.path.exists(os.path.join(COQ, "Makefile")):
        open(cp, "w").write(txt)
        rc, out, err = run(["coq_makefile", "-f", "_CoqProject", "-o", "Makefile"], cwd=COQ, timeout=120)
        if rc != 0:
            raise RuntimeError("coq_makefile failed: " + out + err)


def coq_cone(vfile):
    """.v files (basenames) the given file depends on, itself included, in build order."""
    rc, out, err = run(["coqdep", "-Q", ".", "Tickit", "-sort"] +
                       sorted(os.path.basename(p) for p in glob.glob(os.path.join(COQ, "*.v"))),
                       cwd=COQ, timeout=120)
    order = [os.path.basename(x) for x in out.split()]
    # transitive closure through Require lines
    deps = {}
    for v in order:
        src = open(os.path.join(COQ, v)).read()
        ds = set()
        for m in re.finditer(r"From\s+Tickit\s+Require\s+(?:Import\s+|Export\s+)?([^.]*)\.", src):
            for name in m.group(1).split():
                ds.add(name + ".v")
        for m in re.finditer(r"Require\s+(?:Import\s+|Export\s+)?((?:Tickit\.\w+\s*)+)\.", src):
            for name in m.group(1).split():
                ds.add(name.split(".")[-1] + ".v")
        deps[v] = ds
    cone, todo = set(), [vfile]
    while todo:
        v = todo.pop()
        if v in cone or v not in deps:
            continue
        cone.add(v)
        todo.extend(deps[v])
    return [v for v in order if v in cone]


class coq_lock:
    """serialise Coq builds of concurrent ./check runs (they share coq/*.vo)"""
    def __enter__(self):
        import fcntl
        os.makedirs(BUILD, exist_ok=True)
        self.f = open(os.path.join(BUILD, ".coq.lock"), "w")
        fcntl.flock(self.f, fcntl.LOCK_EX)
    def __exit__(self, *a):
        self.f.close()


def coq_prove(pid, targets, timeout):
    with coq_lock():
        return coq_prove_locked(pid, targets, timeout)


def coq_prove_locked(pid, targets, timeout):
    """Build the property's cone, re-run the property file to read Print Assumptions,
    run the hygiene scan.  Returns a dict describing the proof part of the evidence."""
    res = {"ok": False, "errors": [], "obligations": 0, "discharged": 0, "theorems": [],
           "axioms": [], "cone": []}
    coq_project()
    props = "Properties_%s.v" % pid
    t0 = time.time()
    rc, out, err = run(["make", "-k", "-j%d" % NCPU] + [t + ".vo" for t in targets], cwd=COQ, timeout=timeout)
    res["make_s"] = round(time.time() - t0, 2)
    cone = coq_cone(props)
    res["cone"] = cone
    stmts = []
    for v in cone:
        src = open(os.path.join(COQ, v)).read()
        nocom = strip_comments(src)
        for m in STMT.finditer(nocom):
            stmts.append(v[:-2] + "." + m.group(2))
        for m in HYGIENE.finditer(nocom):
            res["errors"].append("hygiene: %s contains '%s'" % (v, m.group(0)))
        depth = 0   # Variable/Hypothesis/Context outside a Section declare axioms
        for m in re.finditer(r"^\s*(Section|Module|End|Variable|Variables|Hypothesis|Hypotheses|Context)\b", nocom, re.M):
            w = m.group(1)
            if w in ("Section", "Module"):
                depth += 1
            elif w == "End":
                depth -= 1
            elif depth <= 0:
                res["errors"].append("hygiene: %s declares '%s' outside a Section" % (v, w))
    res["obligations"] = len(stmts)
    if rc != 0:
        msg = (out + err)
        m = re.search(r'File "\./(\w+\.v)", line (\d+).*?\n(Error:.*?)(?:\n\n|\nmake)', msg, re.S)
        if m:
            res["errors"].append("coq: %s line %s: %s" % (m.group(1), m.group(2), " ".join(m.group(3).split())[:400]))
            res["broken_file"] = m.group(1)
        else:
            res["errors"].append("coq: make failed: " + msg[-600:])
        # which statements are in files that did compile?
        okfiles = {v for v in cone if os.path.exists(os.path.join(COQ, v + "o")) and
                   os.path.getmtime(os.path.join(COQ, v + "o")) >= os.path.getmtime(os.path.join(COQ, v))}
        res["discharged"] = sum(1 for s in stmts if s.split(".")[0] + ".v" in okfiles)
        return res
    # fresh run of the property file: Print Assumptions output
    rc, out, err = run(["coqc", "-Q", ".", "Tickit", props], cwd=COQ, timeout=timeout)
    if rc != 0:
        res["errors"].append("coq: %s: %s" % (props, (out + err)[-600:]))
        return res
    src = strip_comments(open(os.path.join(COQ, props)).read())
    printed = re.findall(r"Print Assumptions\s+(\w+)\s*\.", src)
    thms = [m.group(2) for m in STMT.finditer(src)]
    res["theorems"] = thms
    blocks = re.split(r"(?=Closed under the global context|Axioms:)", out)
    blocks = [b for b in blocks if b.startswith("Closed") or b.startswith("Axioms:")]
    if len(blocks) != len(printed):
        res["errors"].append("coq: %d Print Assumptions commands but %d reports" % (len(printed), len(blocks)))
    axioms = set()
    for b in blocks:
        if b.startswith("Axioms:"):
            for m in re.finditer(r"^(\S+)\s*:", b[len("Axioms:"):], re.M):
                axioms.add(m.group(1))
    res["axioms"] = sorted(axioms)
    for a in axioms:
        if a.split(".")[-1] not in ALLOWED_AXIOMS:
            res["errors"].append("coq: theorem depends on axiom %s, which is not in the stated trusted base" % a)
    missing = [t for t in thms if t.startswith(pid + "_") and t not in printed and not t.endswith("nonvacuous")]
    if missing:
        res["errors"].append("coq: no Print Assumptions for " + ",".join(missing))
    if not res["errors"]:
        res["ok"] = True
        res["discharged"] = res["obligations"]
    return res


def strip_comments(src):
    out, depth, i = [], 0, 0
    while i < len(src):
        if src.startswith("(*", i):
            depth += 1; i += 2
        elif src.startswith("*)", i) and depth > 0:
            depth -= 1; i += 2
        else:
            if depth == 0:
                out.append(src[i])
            elif src[i] == "\n":
                out.append("\n")
            i += 1
    return "".join(out)


# ---------------------------------------------------------------------------------------
# 3. OCaml driver and C harness

def build_driver(pid, ml, drivers):
    d = os.path.join(BUILD, pid)
    os.makedirs(d, exist_ok=True)
    for ext in (".ml", ".mli"):
        shutil.copy(os.path.join(COQ, ml + ext), os.path.join(d, ml + ext))
    with open(os.path.join(d, "drv.ml"), "w") as f:
        f.write("open %s\n" % (ml[0].upper() + ml[1:]))
        for part in drivers:
            f.write(open(os.path.join(VERIF, "ocaml", part)).read())
            f.write("\n")
    rc, out, err = run(["ocamlfind", "ocamlopt", "-O3" if False else "-inline", "100", "-w", "-a",
                        ml + ".mli", ml + ".ml", "drv.ml", "-o", "drv"], cwd=d, timeout=300)
    if rc != 0:
        raise RuntimeError("ocaml build failed: " + (out + err)[-2000:])
    return os.path.join(d, "drv")


def copy_repo_sources(tmp):
    """Fresh copy of /repo's src/ and include/ as they are NOW; .inc files regenerated
    from their .PL generators when those are newer (as the Makefile would)."""
    for sub in ("src", "include"):
        shutil.copytree(os.path.join(REPO, sub), os.path.join(tmp, sub),
                        ignore=shutil.ignore_patterns("*.o", "*.lo", ".libs", "*.la"))
    for pl in glob.glob(os.path.join(REPO, "src", "*.inc.PL")):
        inc = pl[:-3]
        if (not os.path.exists(inc)) or os.path.getmtime(pl) > os.path.getmtime(inc):
            rc, out, err = run(["perl", pl], timeout=60)
            # (in this sandbox two of the three generators cannot run: a perl module and the
            #  Unicode data files are absent; then the tracked .inc is used as it is)
            if rc == 0 and out.strip():
                open(os.path.join(tmp, "src", os.path.basename(inc)), "w").write(out)


def build_harness(pid, harness_c, srcs=None, exclude=(), extra_cflags=(), extra_ld=()):
    """Compile the harness against a fresh copy of /repo's sources.  Returns (exe, tmpdir);
    the caller removes tmpdir."""
    tmp = tempfile.mkdtemp(prefix="verif-%s-" % pid)
    copy_repo_sources(tmp)
    if srcs is None:
        srcs = sorted(os.path.basename(p) for p in glob.glob(os.path.join(tmp, "src", "*.c")))
    srcs = [s for s in srcs if s not in exclude]
    inc = ["-I", os.path.join(tmp, "include"), "-I", os.path.join(tmp, "src"),
           "-I", os.path.join(VERIF, "harness")]
    jobs = [(os.path.join(tmp, "src", s), os.path.join(tmp, s[:-2] + ".o")) for s in srcs]
    jobs.append((os.path.join(VERIF, harness_c), os.path.join(tmp, "harness.o")))

    def cc(job):
        src, obj = job
        return run(["gcc"] + CFLAGS + list(extra_cflags) + inc + ["-c", src, "-o", obj], cwd=os.path.join(tmp, "src"), timeout=300)
    with cf.ThreadPoolExecutor(NCPU) as ex:
        results = list(ex.map(cc, jobs))
    for (src, obj), (rc, out, err) in zip(jobs, results):
        if rc != 0:
            shutil.rmtree(tmp, ignore_errors=True)
            raise RuntimeError("C build failed for %s:\n%s" % (src, (out + err)[-3000:]))
    exe = os.path.join(tmp, "harness")
    rc, out, err = run(["gcc"] + CFLAGS + [o for _, o in jobs] + ["-o", exe] + list(extra_ld) + LDLIBS, timeout=300)
    if rc != 0:
        shutil.rmtree(tmp, ignore_errors=True)
        raise RuntimeError("C link failed:\n" + (out + err)[-3000:])
    return exe, tmp


# ---------------------------------------------------------------------------------------
# 4. running both sides

def _run_proc(exe, argv, data, env, timeout, stall):
    """Run one process over the given input.  Besides the overall time-out there is a STALL
    watchdog: a process that prints no further observation for `stall` seconds is hanging
    on a case and is killed (exit code 124), so a hang costs seconds, not the whole budget."""
    import threading
    e = dict(os.environ)
    if env:
        e.update(env)
    p = subprocess.Popen([exe] + argv, stdin=subprocess.PIPE, stdout=subprocess.PIPE, stderr=subprocess.PIPE, env=e)
    out_chunks, err_chunks = [], []
    last = [time.time()]

    def feed():
        try:
            p.stdin.write(data)
            p.stdin.close()
        except (BrokenPipeError, OSError):
            pass

    def rd_out():
        while True:
            b = p.stdout.read1(65536)
            if not b:
                break
            out_chunks.append(b)
            last[0] = time.time()

    def rd_err():
        while True:
            b = p.stderr.read1(65536)
            if not b:
                break
            err_chunks.append(b)
    ths = [threading.Thread(target=f, daemon=True) for f in (feed, rd_out, rd_err)]
    for t in ths:
        t.start()
    t0 = time.time()
    killed = False
    while p.poll() is None:
        time.sleep(0.05)
        now = time.time()
        if now - t0 > timeout:
            p.kill()
            killed = 125       # the whole chunk took too long (e.g. many cases at their per-case watchdog)
            break
        if now - last[0] > stall:
            p.kill()
            killed = 124       # no output for a while: hanging on one case
            break
    p.wait()
    for t in ths[1:]:
        t.join(timeout=5)
    out = b"".join(out_chunks).decode("utf-8", "replace")
    err = b"".join(err_chunks).decode("utf-8", "replace")
    return (killed if killed else p.returncode), out, err


def _run_chunk(args):
    exe, argv, cases, env, per_case_timeout = args
    """Run one process over a chunk; on a crash or hang, mark the culprit case and go on."""
    obs = []
    i = 0
    crashes = 0
    stall = max(15.0, 100 * per_case_timeout)
    while i < len(cases):
        data = ("\n".join(cases[i:]) + "\n").encode()
        rc, out, err = _run_proc(exe, argv, data, env, max(120, per_case_timeout * (len(cases) - i)), stall)
        lines = out.split("\n")
        if lines and lines[-1] == "":
            lines.pop()
        elif lines and rc != 0:
            lines.pop()          # a partial last line of a killed/crashed process
        if rc == 0 and len(lines) == len(cases) - i:
            obs.extend(lines)
            break
        # crashed or short: lines[0..k-1] are good, case i+k is the culprit
        k = min(len(lines), len(cases) - i - 1) if rc != 0 else len(lines)
        if rc == 0:
            # fewer/more lines without a crash: protocol error
            obs.extend(lines[:len(cases) - i])
            obs.extend(["ERR short-output"] * (len(cases) - len(obs)))
            break
        obs.extend(lines[:k])
        if rc == 125:
            obs.extend(["ERR chunk-timeout"] * (len(cases) - len(obs)))
            break
        obs.append("CRASH " + crash_summary(rc, err))
        crashes += 5 if rc == 124 else 1     # a hang costs a stall period: spend the budget faster
        i = len(obs)
        if crashes > 50:
            obs.extend(["ERR too-many-crashes"] * (len(cases) - len(obs)))
            break
    return obs


def crash_summary(rc, err):
    if rc == 124:
        return "timeout"
    m = re.search(r"ERROR: (AddressSanitizer|LeakSanitizer): ([\w-]+)", err)
    if m:
        where = re.search(r"#\d+ 0x[0-9a-f]+ in (\w+) [^\n]*?/src/(\w[\w.-]*):(\d+)", err)
        s = "%s:%s" % (m.group(1).replace("Sanitizer", "San"), m.group(2))
        if m.group(1) == "LeakSanitizer":
            s = "LeakSan:leak"
        if where:
            s += "@%s:%s" % (where.group(2), where.group(1))
        return s
    m = re.search(r"runtime error: ([^\n]*)", err)
    if m:
        where = re.search(r"(\w[\w.-]*\.c):(\d+):\d+: runtime error", err)
        return "UBSan:" + "_".join(m.group(1).split()[:6]) + ("@" + where.group(1) if where else "")
    return "exit%d" % rc


def run_sharded(exe, argv, cases, env=None, per_case_timeout=0.05, min_chunk=2000):
    if not cases:
        return []
    n = max(1, min(NCPU, len(cases) // min_chunk + 1))
    size = (len(cases) + n - 1) // n
    chunks = [cases[i:i + size] for i in range(0, len(cases), size)]
    with cf.ThreadPoolExecutor(n) as ex:
        parts = list(ex.map(_run_chunk, [(exe, argv, c, env, per_case_timeout) for c in chunks]))
    return [o for p in parts for o in p]


# ---------------------------------------------------------------------------------------
# 5. known findings

def load_findings(pid):
    p = os.path.join(VERIF, "known_findings.json")
    if not os.path.exists(p):
        return []
    return [f for f in json.load(open(p)).get("findings", []) if f.get("property") == pid]


# ---------------------------------------------------------------------------------------
# 6. the whole check

class Outcome:
    def __init__(self):
        self.violations = []      # (kind, case, detail)
        self.known = []


def write_replay(pid, seed, n, payload):
    d = os.path.join(VERIF, "replays")
    os.makedirs(d, exist_ok=True)
    p = os.path.join(d, "%s-%s-%d.json" % (pid, seed, n))
    json.dump(payload, open(p, "w"), indent=1)
    return p


def check(pid, tier, seed, replay=None):
    t0 = time.time()
    mod = importlib.import_module("props." + pid)
    ev = {"property_id": pid, "tier": tier, "seed": seed, "level": getattr(mod, "LEVEL", "proof"),
          "coverage": {}, "assumptions": list(getattr(mod, "ASSUMPTIONS", [])), "wall_s": 0.0, "violations": 0}
    cov = ev["coverage"]
    problems = []          # reasons the property is "no longer shown to hold"
    tmp = None
    exit_code = 0
    try:
        ok, msg = translate_tables()
        if not ok:
            problems.append(("translator", "gen_tables.py could not translate /repo's tables: " + msg[-500:]))
        targets = ["Properties_" + pid] + list(getattr(mod, "COQ_EXTRA_TARGETS", ["Extract_" + pid]))
        proof = coq_prove(pid, targets, timeout=3600 if tier == "thorough" else 1500)
        cov["obligations"] = proof["obligations"]
        cov["discharged"] = proof["discharged"]
        cov["checker_cmd"] = ("cd coq && coq_makefile -f _CoqProject -o Makefile && make -k -j16 %s && "
                              "coqc -Q . Tickit Properties_%s.v  # Coq 8.16.1; Print Assumptions parsed; hygiene scan"
                              % (" ".join(t + ".vo" for t in targets), pid))
        cov["theorems"] = proof["theorems"]
        cov["axioms_reported"] = proof["axioms"]
        cov["coq_files_in_cone"] = proof["cone"]
        cov["trusted_base"] = list(getattr(mod, "TRUSTED", [])) + BASE_TRUSTED
        for e in proof["errors"]:
            problems.append(("proof", e))
        log("[%s] proof: %d/%d statements checked in %d files, axioms=%s%s" %
            (pid, proof["discharged"], proof["obligations"], len(proof["cone"]), proof["axioms"] or "none",
             "" if proof["ok"] else "  ** BROKEN: " + "; ".join(proof["errors"])[:500]))
        if tier == "thorough" and proof["ok"] and os.environ.get("VERIF_NO_COQCHK") != "1":
            t1 = time.time()
            rc, out, err = run(["coqchk", "-o", "-silent", "-Q", ".", "Tickit", "Tickit.Properties_" + pid],
                               cwd=COQ, timeout=3000)
            cov["coqchk"] = {"exit": rc, "wall_s": round(time.time() - t1, 1), "tail": (out + err)[-1500:]}
            if rc != 0:
                problems.append(("proof", "coqchk rejected the compiled theory: " + (out + err)[-300:]))
            log("[%s] coqchk exit=%d (%.0fs)" % (pid, rc, time.time() - t1))

        # model side
        drv = None
        ml_path = os.path.join(COQ, mod.ML + ".ml")
        if os.path.exists(ml_path):
            drv = build_driver(pid, mod.ML, ["zutil.ml"] + list(getattr(mod, "DRIVER_PARTS", ["drv_%s.ml" % pid])))
        else:
            problems.append(("extraction", "extracted model %s.ml is missing (Coq build broken)" % mod.ML))

        # implementation side
        try:
            exe, tmp = build_harness(pid, mod.HARNESS, getattr(mod, "SRCS", None), getattr(mod, "EXCLUDE", ()),
                                     getattr(mod, "EXTRA_CFLAGS", ()), getattr(mod, "EXTRA_LD", ()))
        except RuntimeError as e:
            problems.append(("build", "harness does not build against /repo's working tree: " + str(e)[-800:]))
            exe = None

        # cases
        if replay:
            rp = json.load(open(replay))
            cases = list(rp.get("cases") or [rp["case"]])
            gen_info = {"source": "replay " + replay}
        else:
            corpus = []
            for f in sorted(glob.glob(os.path.join(VERIF, "corpus", pid, "*.case"))):
                corpus += [l.rstrip("\n") for l in open(f) if l.strip() and not l.startswith("#")]
            findings = load_findings(pid)
            for fd in findings:
                corpus += list(fd.get("cases", []))
            gen_info = {}
            cases = corpus + list(mod.gen(tier, seed, gen_info))
            gen_info["corpus_cases"] = len(corpus)
        findings = load_findings(pid)

        c_obs = run_sharded(exe, list(getattr(mod, "HARNESS_ARGS", [])), cases, env=ASAN_ENV,
                            per_case_timeout=getattr(mod, "CASE_TIMEOUT", 0.05)) if exe else None
        m_obs = run_sharded(drv, ["model"], cases, per_case_timeout=getattr(mod, "CASE_TIMEOUT", 0.05)) if drv else None

        mism = []
        if c_obs is not None and m_obs is not None:
            canon = getattr(mod, "canon", lambda case, o: o)
            for i, (c, m) in enumerate(zip(c_obs, m_obs)):
                if canon(cases[i], c) != canon(cases[i], m):
                    mism.append(i)
        # oracle on the implementation's observations
        bad = []
        if c_obs is not None and drv and getattr(mod, "HAS_ORACLE", True):
            verdicts = run_sharded(drv, ["oracle"], ["%s | %s" % (c, o) for c, o in zip(cases, c_obs)],
                                   per_case_timeout=getattr(mod, "CASE_TIMEOUT", 0.05))
            # cases the harness never got to (ERR chunk-timeout / too-many-crashes) are not judged
            bad = [i for i, v in enumerate(verdicts) if not v.startswith("OK") and not c_obs[i].startswith("ERR ")]
            cov["oracle_verdicts"] = len(verdicts)
        elif c_obs is not None and hasattr(mod, "py_oracle"):
            bad = [i for i, (c, o) in enumerate(zip(cases, c_obs)) if not mod.py_oracle(c, o)]

        # attribute spec violations to known findings
        explain = getattr(mod, "explain", None)
        known_hits = {}
        new_bad = []
        for i in bad:
            fid = None
            if explain and m_obs is not None and i not in mism:
                fid = explain(cases[i], c_obs[i], findings)
            # only findings LISTED as known in known_findings.json can explain a violation
            if fid and fid not in {f["id"] for f in findings if f.get("status") == "known"}:
                fid = None
            if fid:
                known_hits.setdefault(fid, []).append(i)
            else:
                new_bad.append(i)
        for fd in findings:
            if fd.get("status") == "known":
                wit = [i for i in bad if cases[i] in fd.get("cases", [])]
                if wit or fd["id"] in known_hits:
                    log("KNOWN-FINDING: property=%s %s [%s; witness still fails: %s]" %
                        (pid, fd["what"], fd["id"], "yes" if wit else "no (other instances seen)"))
                else:
                    log("[%s] note: listed finding %s no longer reproduces" % (pid, fd["id"]))
                for i in wit:
                    if i in new_bad:
                        new_bad.remove(i)

        # statistics
        classes = {}
        if c_obs is not None:
            classify = getattr(mod, "classify", None)
            for case, o in zip(cases, c_obs):
                k = classify(case, o) if classify else case
                if k is not None:
                    classes[k] = classes.get(k, 0) + 1
        cov["evaluations"] = len(cases)
        cov["distinct_nontrivial"] = len(classes)
        cov["rule"] = getattr(mod, "RULE", "")
        cov["exhaustive"] = bool(gen_info.get("exhaustive", False))
        cov["generator"] = gen_info
        cov["mismatches_impl_vs_model"] = len(mism)
        cov["spec_violations_on_impl"] = len(bad)
        cov["attributed_to_known_findings"] = {k: len(v) for k, v in known_hits.items()}
        if c_obs is not None:
            step = max(1, len(cases) // 5)
            cov["samples"] = [{"case": cases[i], "impl": c_obs[i], "model": (m_obs[i] if m_obs else None)}
                              for i in range(0, len(cases), step)][:6]
        else:
            cov["samples"] = [{"case": c} for c in cases[:3]]
        log("[%s] correspondence: %d cases, %d classes, mismatches=%d, spec violations on impl=%d (known: %s)" %
            (pid, len(cases), len(classes), len(mism), len(bad), cov["attributed_to_known_findings"] or "none"))

        if replay:
            for i, c in enumerate(cases):
                log("case : " + c)
                log("impl : " + (c_obs[i] if c_obs else "-"))
                log("model: " + (m_obs[i] if m_obs else "-"))
                log("spec : " + ("VIOLATED" if i in bad else "ok") + ("   <-- impl and model differ" if i in mism else ""))

        # ---- decision
        nviol = 0
        shrink = getattr(mod, "shrink", None)

        def minimise(case):
            if not (shrink and exe and drv):
                return case
            cur = case
            t_min = time.time()
            for _ in range(200):
                if time.time() - t_min > (60 if tier == "quick" else 300):
                    break            # minimisation is a convenience; never let it dominate the run
                cands = list(shrink(cur))[:400]
                if not cands:
                    break
                o = run_sharded(exe, list(getattr(mod, "HARNESS_ARGS", [])), cands, env=ASAN_ENV, min_chunk=50)
                v = run_sharded(drv, ["oracle"], ["%s | %s" % (c, x) for c, x in zip(cands, o)], min_chunk=50)
                nxt = None
                for c, x, vv in zip(cands, o, v):
                    if not vv.startswith("OK") and not (explain and explain(c, x, findings) in
                                                        {f["id"] for f in findings if f.get("status") == "known"}):
                        nxt = c
                        break
                if nxt is None:
                    break
                cur = nxt
            return cur

        if new_bad:
            i = new_bad[0]
            case = minimise(cases[i])
            path = write_replay(pid, seed, 0, {
                "property": pid, "kind": "spec-violation", "case": case, "original_case": cases[i],
                "impl_observation": c_obs[i], "model_observation": m_obs[i] if m_obs else None,
                "also_failing": [cases[j] for j in new_bad[1:20]],
                "note": "the implementation's own observation violates the specification checker extracted from Coq"})
            log("VIOLATION property=%s replay=%s" % (pid, path))
            nviol = len(new_bad)
            exit_code = 1
        elif mism or problems:
            what = []
            if problems:
                what += ["%s: %s" % p for p in problems]
            if mism:
                what.append("correspondence: implementation and model differ on %d of %d cases" % (len(mism), len(cases)))
            path = write_replay(pid, seed, 0, {
                "property": pid, "kind": "proof" if problems and not mism else "correspondence",
                "no_longer_checks": what,
                "theorems": ["Properties_%s.%s" % (pid, t) for t in proof["theorems"]] or ["Properties_%s" % pid],
                "first_differing_cases": [{"case": cases[i], "impl": c_obs[i], "model": m_obs[i]} for i in mism[:10]],
                "note": "no input was found on which the implementation violates the specification; "
                        "the property is no longer shown to hold because the theorem/correspondence named here does not check"})
            log("[%s] %s" % (pid, " | ".join(what)[:1500]))
            log("VIOLATION property=%s replay=%s no-failing-input-found" % (pid, path))
            nviol = 1
            exit_code = 1
        # ---- memory events of OTHER properties' harnesses (used by C08, whose claim is that no
        # API history touches freed or foreign memory: every harness runs under ASan/UBSan/LSan,
        # so a sanitizer report on any of their cases is a violation of this property too)
        also = list(getattr(mod, "ALSO_MEMORY_QUICK" if tier == "quick" else "ALSO_MEMORY_THOROUGH", []))
        if also and not replay:
            extra = {}
            for q in also:
                qm = importlib.import_module("props." + q)
                try:
                    qexe, qtmp = build_harness(q, qm.HARNESS, getattr(qm, "SRCS", None), getattr(qm, "EXCLUDE", ()),
                                               getattr(qm, "EXTRA_CFLAGS", ()), getattr(qm, "EXTRA_LD", ()))
                except RuntimeError as e:
                    problems.append(("build", "harness of %s does not build: %s" % (q, str(e)[-300:])))
                    continue
                try:
                    qinfo = {}
                    qcases = []
                    for f in sorted(glob.glob(os.path.join(VERIF, "corpus", q, "*.case"))):
                        qcases += [l.rstrip("\n") for l in open(f) if l.strip() and not l.startswith("#")]
                    qcases += list(qm.gen("quick", seed, qinfo))
                    qobs = run_sharded(qexe, list(getattr(qm, "HARNESS_ARGS", [])), qcases, env=ASAN_ENV,
                                       per_case_timeout=getattr(qm, "CASE_TIMEOUT", 0.05))
                    crashed = [(c, o) for c, o in zip(qcases, qobs) if o.startswith("CRASH ") and "San" in o]
                    extra[q] = {"cases": len(qcases), "sanitizer_reports": len(crashed)}
                    if crashed and exit_code == 0:
                        path = write_replay(pid, seed, 1, {
                            "property": pid, "kind": "memory-error", "found_by_harness_of": q,
                            "case": crashed[0][0], "impl_observation": crashed[0][1],
                            "also_failing": [c for c, _ in crashed[1:20]],
                            "replay_with": "./check %s --replay <file with this case>" % q,
                            "note": "a sanitizer reported a memory error while the harness of %s ran this case" % q})
                        log("VIOLATION property=%s replay=%s" % (pid, path))
                        nviol += len(crashed)
                        exit_code = 1
                finally:
                    shutil.rmtree(qtmp, ignore_errors=True)
            cov["memory_events_of_other_harnesses"] = extra
            log("[%s] sanitizer sweep over other harnesses: %s" % (pid, extra))
        # fixed findings: must pass now (they are in the corpus, so any failure was reported above)
        ev["violations"] = nviol
    finally:
        if tmp:
            shutil.rmtree(tmp, ignore_errors=True)
    ev["wall_s"] = round(time.time() - t0, 2)
    if not replay:
        os.makedirs(os.path.join(VERIF, "evidence"), exist_ok=True)
        json.dump(ev, open(os.path.join(VERIF, "evidence", pid + ".json"), "w"), indent=1)
    log("[%s] tier=%s seed=%s wall=%.1fs exit=%d" % (pid, tier, seed, ev["wall_s"], exit_code))
    return exit_code


BASE_TRUSTED = [
    "Coq 8.16.1 kernel (coqc; coqchk -o in the thorough tier); vm_compute for closed finite facts; native_compute not used",
    "no axioms declared by the development; Print Assumptions output of every property theorem is parsed on every run",
    "extraction: Coq Extraction with ExtrOcamlBasic only (bool, option, unit, prod, list, sumbool, sumor mapped to OCaml's; Z/N/positive/nat kept as extracted inductives; no Extract Constant); OCaml 4.13.1; the per-property driver ocaml/drv_<id>.ml",
    "correspondence check (generators, C harness, canonicalisation, diff): differential testing that ties the hand-written model to /repo's current sources; it is the only link between theorems and C text",
    "C integers modelled as unbounded Z (assumes no int overflow: |values| < 2^30); malloc does not fail",
]


def main(argv):
    import argparse
    ap = argparse.ArgumentParser()
    ap.add_argument("pid")
    ap.add_argument("--tier", default=os.environ.get("VERIF_TIER", "quick"), choices=["quick", "thorough"])
    ap.add_argument("--replay")
    a = ap.parse_args(argv)
    seed = int(os.environ.get("VERIF_SEED", "1"))
    sys.path.insert(0, os.path.join(VERIF, "tools"))
    try:
        return check(a.pid, a.tier, seed, a.replay)
    except Exception as e:   # an internal failure must never look like a pass
        import traceback
        traceback.print_exc()
        path = write_replay(a.pid, seed, 99, {"property": a.pid, "kind": "internal-error", "error": repr(e)})
        log("VIOLATION property=%s replay=%s no-failing-input-found" % (a.pid, path))
        return 1


if __name__ == "__main__":
    sys.exit(main(sys.argv[1:]))
