#!/bin/sh
# confirm_seed.sh <worktree> <outdir> <build-cmd-for-demo>
# Confirms a seeded change in a scratch worktree: with the patch the suite passes and the
# demo fails; without it the demo passes.  Prints CONFIRMED or the reason it is not.
WT=$1; OUT=$2; BUILD=$3
cd "$WT" || exit 2
git checkout -q -- . 
git apply --whitespace=nowarn "$OUT/patch.diff" || { echo "NOT-CONFIRMED patch does not apply"; exit 1; }
make -k -j8 test > "$OUT/test.log" 2>&1
if ! grep -q "All tests successful" "$OUT/test.log"; then echo "NOT-CONFIRMED tests fail with patch"; git checkout -q -- .; exit 1; fi
sh -c "$BUILD" > "$OUT/build.log" 2>&1 || { echo "NOT-CONFIRMED demo does not build"; git checkout -q -- .; exit 1; }
timeout 120 ./demo_bin > "$OUT/demo_with.log" 2>&1; W=$?
git checkout -q -- .
make -k -j8 > /dev/null 2>&1
sh -c "$BUILD" > "$OUT/build.log" 2>&1
timeout 120 ./demo_bin > "$OUT/demo_without.log" 2>&1; WO=$?
rm -f demo_bin
if [ $W -ne 0 ] && [ $WO -eq 0 ]; then echo "CONFIRMED with=$W without=$WO"; else echo "NOT-CONFIRMED with=$W without=$WO"; exit 1; fi
