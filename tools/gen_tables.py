#!/usr/bin/env python3
"""gen_tables.py <repo> <coqdir> -- the translator for DATA: re-extracts the tables that
live in /repo's sources into coq/Gen_*.v on every run (a file is rewritten only when its
content changes, so an unchanged tree keeps its .vo files valid).  Each module in
tools/tables/ exports generate(repo, coqdir) -> list of (filename, text)."""
import glob, importlib.util, os, sys

def main(repo, coqdir):
    here = os.path.dirname(os.path.abspath(__file__))
    rc = 0
    for f in sorted(glob.glob(os.path.join(here, "tables", "*.py"))):
        spec = importlib.util.spec_from_file_location("tbl_" + os.path.basename(f)[:-3], f)
        m = importlib.util.module_from_spec(spec); spec.loader.exec_module(m)
        try:
            for name, text in m.generate(repo, coqdir):
                p = os.path.join(coqdir, name)
                if (not os.path.exists(p)) or open(p).read() != text:
                    open(p, "w").write(text)
                    print("translated", name)
        except Exception as e:
            print("translator %s failed: %r" % (os.path.basename(f), e))
            rc = 1
    return rc

if __name__ == "__main__":
    sys.exit(main(sys.argv[1], sys.argv[2]))
