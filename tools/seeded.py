#!/usr/bin/env python3
"""seeded.py [name ...] -- run the registered checks against the seeded breaking changes
kept under /verif/seeded/<name>/ (patch.diff, demo, meta.json).  For each: apply the patch
to /repo's working tree, run ./check <property> (quick), expect a VIOLATION line, and undo
the patch straight afterwards.  Evidence files are saved and restored so that they keep
describing the unchanged tree.  Prints one line per change and writes seeded/RESULTS.json."""
import json, os, shutil, subprocess, sys, time

VERIF = os.path.dirname(os.path.dirname(os.path.abspath(__file__)))
REPO = "/repo"


def sh(cmd, **kw):
    return subprocess.run(cmd, shell=True, stdout=subprocess.PIPE, stderr=subprocess.STDOUT, text=True, **kw)


def main(names):
    sd = os.path.join(VERIF, "seeded")
    if not names:
        names = sorted(n for n in os.listdir(sd) if os.path.isdir(os.path.join(sd, n)))
    dirty = sh("git -C %s status --porcelain --untracked-files=no" % REPO).stdout.strip()
    if dirty:
        print("refusing: /repo has uncommitted changes to tracked files:\n" + dirty)
        return 2
    results = {}
    rp = os.path.join(sd, "RESULTS.json")
    if os.path.exists(rp):
        results = json.load(open(rp))
    for n in names:
        d = os.path.join(sd, n)
        meta = json.load(open(os.path.join(d, "meta.json")))
        pids = meta.get("checks") or [meta["property"]]
        a = sh("git -C %s apply --whitespace=nowarn %s" % (REPO, os.path.join(d, "patch.diff")))
        if a.returncode != 0:
            print("%-28s patch does not apply: %s" % (n, a.stdout.strip()[:200]))
            results[n] = {"applies": False}
            continue
        try:
            res = {}
            for pid in pids:
                evp = os.path.join(VERIF, "evidence", pid + ".json")
                bak = evp + ".bak"
                if os.path.exists(evp):
                    shutil.copy(evp, bak)
                t0 = time.time()
                r = sh("./check %s --tier quick" % pid, cwd=VERIF)
                vio = [l for l in r.stdout.splitlines() if l.startswith("VIOLATION")]
                res[pid] = {"exit": r.returncode, "violation_line": vio[0] if vio else None,
                            "wall_s": round(time.time() - t0, 1)}
                if os.path.exists(bak):
                    shutil.move(bak, evp)
            caught = any(v["exit"] == 1 and v["violation_line"] for v in res.values())
            with_input = any(v["violation_line"] and "no-failing-input-found" not in v["violation_line"] for v in res.values())
            results[n] = {"applies": True, "property": meta["property"], "caught": caught,
                          "with_failing_input": with_input, "checks": res}
            print("%-28s %-5s %s" % (n, meta["property"], "CAUGHT" + (" (failing input)" if with_input else " (no-failing-input-found)") if caught else "MISSED"))
        finally:
            sh("git -C %s checkout -- ." % REPO)
    json.dump(results, open(rp, "w"), indent=1, sort_keys=True)
    return 0


if __name__ == "__main__":
    sys.exit(main(sys.argv[1:]))
