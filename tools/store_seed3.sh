#!/bin/sh
# store_seed2.sh <pid> : confirm /tmp/seed3-<pid>/out/{1,2,3} and store as seeded/<pid>-{4,5,6}
p=$1
for k in 1 2 3; do
  n=$((k+6)); src=/tmp/seed3-$p/out/$k
  [ -f $src/patch.diff ] || { echo "$p-$n: missing"; continue; }
  b=$(python3 -c "import json;print(json.load(open('$src/meta.json')).get('build',''))" 2>/dev/null)
  case "$b" in *fsanitize*) build="gcc -fsanitize=address -g -std=c99 -D_DEFAULT_SOURCE -D_XOPEN_SOURCE=600 -Iinclude -Isrc out/$k/demo.c src/*.c -ltermkey -lncursesw -ltinfo -o demo_bin";; *) build="touch src/*.inc; make -j8 >/dev/null 2>&1; gcc -std=c99 -D_XOPEN_SOURCE=700 -Iinclude out/$k/demo.c .libs/libtickit.a -ltermkey -lncursesw -ltinfo -o demo_bin";; esac
  (cd /tmp/seed3-$p && git checkout -q -- . && touch src/*.inc)
  r=$(/verif/tools/confirm_seed.sh /tmp/seed3-$p $src "$build")
  echo "$p-$n: $r"
  case "$r" in CONFIRMED*) d=/verif/seeded/$p-$n; mkdir -p $d; cp $src/patch.diff $src/demo.c $d/
    python3 - <<PY
import json
try: m=json.load(open('$src/meta.json'))
except Exception as e: m={"property":"$p","summary":"(meta.json of the reviewer was not valid JSON)"}
m['property']="$p"; m['round']=3
m['confirmed_by']="tools/confirm_seed.sh in a scratch worktree of /repo (repaired tree): patch applied -> make -k -j8 test all pass and demo exits non-zero; patch removed -> demo exits 0"
json.dump(m, open('$d/meta.json','w'), indent=1)
PY
  ;; esac
done
git -C /repo worktree remove --force /tmp/seed3-$p; rm -f /tmp/seed3-$p.property.json /tmp/seed3-$p.task.md
