#!/usr/bin/env python3
"""Writes FINDINGS.md from known_findings.json (the defects of leonerd/libtickit found by this
framework: repaired by fix: commits in /repo, or recorded as known findings)."""
import json, os, subprocess
V = os.path.dirname(os.path.dirname(os.path.abspath(__file__)))
kf = json.load(open(os.path.join(V, "known_findings.json")))["findings"]
out = ["# Defects of leonerd/libtickit found by the verification framework", "",
       "Generated from `known_findings.json` by `tools/mk_findings_table.py`.  `fixed` = repaired by the named `fix:` commit in /repo "
       "(the witness cases are replayed by the property's check on every run; a failure is a VIOLATION).  `known` = recorded, not repaired; "
       "the check prints `KNOWN-FINDING:` and attributes only the stated trigger class.", ""]
for status in ("known", "fixed"):
    rows = [f for f in kf if f["status"] == status]
    out += ["## %s (%d)" % (status, len(rows)), "", "| id | property | %s | what failed | witness case(s) |" % ("commit" if status == "fixed" else "—"), "|---|---|---|---|---|"]
    for f in rows:
        w = "; ".join("`%s`" % c for c in f.get("cases", [])[:2]) or (f.get("cases_file", "corpus"))
        out.append("| %s | %s | %s | %s | %s |" % (f["id"], f["property"], f.get("commit", ""), f["what"].replace("|", "/"), w))
    out.append("")
open(os.path.join(V, "FINDINGS.md"), "w").write("\n".join(out))
print(len(kf), "findings")
