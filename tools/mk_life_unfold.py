#!/usr/bin/env python3
"""Regenerate coq/LifeUnfold.v from the text of coq/LifeDefs.v: one unfolding equation per function of the mutual
recursion run_op ... on_term_mouse, at the repaired variant, each proved by reflexivity.
Usage: tools/mk_life_unfold.py   (writes coq/LifeUnfold.v)"""
import os, re, sys
HERE = os.path.dirname(os.path.abspath(__file__))
COQ = os.path.join(HERE, "..", "coq")
src = open(os.path.join(COQ, "LifeDefs.v")).read()
a = src.index("Fixpoint run_op (fuel : nat)")
b = src.index("Fixpoint run_script_from")
block = src[a:b]
parts = re.split(r"(?m)^(?:Fixpoint|with) ", block)[1:]
names = [p.split(None, 1)[0] for p in parts]
VDEP = names + ["close", "purge", "root_cleanup"]        # the functions of the section that depend on the variant
out = ["(* LifeUnfold.v -- the unfolding equations of the mutual recursion of the dispatch functions (repaired variant);",
       "   generated from the text of LifeDefs.v by tools/mk_life_unfold.py, each proved by reflexivity. *)",
       "From Coq Require Import ZArith List Bool PArith FMapPositive.",
       "From Tickit Require Import LifeDefs.",
       "Import ListNotations.",
       "Local Open Scope Z_scope.", ""]
for p in parts:
    m = re.match(r"(\w+) \(fuel : nat\)(.*?) \{struct fuel\} : (.*?) :=\n  match fuel with\n  \| O => nofuel\n  \| S f =>\n", p, re.S)
    assert m, p[:80]
    name, args = m.group(1), m.group(2)
    body = p[m.end():]
    body = body[:body.rindex("\n  end")]
    argnames = []
    for grp in re.findall(r"\(([^:()]+):[^()]*(?:\([^()]*\))?[^()]*\)", args):
        argnames += grp.split()
    for n in VDEP:
        body = re.sub(r"(?<![\w.])%s\b(?! fixed)" % n, n + " fixed", body)
    body = re.sub(r"\bV\b", "fixed", body)
    body = "\n".join(l[2:] if l.startswith("  ") else l for l in body.split("\n"))
    out.append("Lemma %s_F : forall f%s," % (name, "".join(" " + x for x in argnames)))
    out.append("  %s fixed (S f)%s =" % (name, "".join(" " + x for x in argnames)))
    out.append("  (" + body.lstrip() + ").")
    out.append("Proof. reflexivity. Qed.")
    out.append("")
open(os.path.join(COQ, "LifeUnfold.v"), "w").write("\n".join(out))
print("LifeUnfold.v: %d equations" % len(parts))
