(* driver for C13: rb_common.ml plus
     cp dt dl dh dw st sl sh sw     tickit_renderbuffer_copyrect(dest, src)
     mv dt dl dh dw st sl sh sw     tickit_renderbuffer_moverect(dest, src)
     blit                           blit the other buffer onto the current one
   none of which prints anything; dumps are compared for what the cells DISPLAY *)
let () =
  ext_arity := (function "cp" | "mv" -> Some 8 | "blit" -> Some 0 | _ -> None);
  dump_check := dump_disp_checkb;
  eq_check := ast_disp_eqb;
  let rects args = match List.map int_of_string args with
    | [a; b; c; d; e; f; g; h] -> (mkrect a b c d, mkrect e f g h) | _ -> failwith "rects" in
  ext_model := (fun bufs cur kw args ->
      (match kw with
       | "cp" -> let (d, s) = rects args in bufs.(cur) <- unres (copyrect_op bufs.(cur) d s)
       | "mv" -> let (d, s) = rects args in bufs.(cur) <- unres (moverect_op bufs.(cur) d s)
       | "blit" -> bufs.(cur) <- unres (blit bufs.(cur) bufs.(1 - cur))
       | _ -> failwith "ext");
      []);
  ext_oracle := (fun sts cur kw args obs ->
      (match kw with
       | "cp" -> let (d, s) = rects args in sts.(cur) <- a_copyrect sts.(cur) d s
       | "mv" -> let (d, s) = rects args in sts.(cur) <- a_moverect sts.(cur) d s
       | "blit" -> sts.(cur) <- a_blit sts.(cur) sts.(1 - cur)
       | _ -> failwith "ext");
      (true, obs));
  main ()
