(* driver for C17: case line "cb0=<act>,.. ub0=<act>,.. <op> <op> ..." (see harness/loopharness.h;
   ub<k> = what callback k registers when it gets the bare UNBIND notification of a cancel).
   model mode prints the model's observation: the heap-level twin LoopHeap.h_run of the repaired
   code -- its log, FAULT if it touched a freed node, a trailing LEAK if a node was left after
   destruction (proved never to happen: C17_heap_safe) -- cross-checked against the list model
   LoopDefs.run; with VERIF_C17_SEEDED3=1 the heap model with the seeded order of
   cancel_watch_in; with VERIF_C17_PINNED=1 the model of the pinned code, LoopAsIs.a_run
   (FAULT = use after free);
   oracle mode reads "<case> | <obs>" and applies LoopSpec.spec_checkb. *)
let zi = z_of_int
let flags_of n = { f_first = n land 1 <> 0; f_unbind = n land 2 <> 0; f_destroy = n land 4 <> 0 }
let ints s = List.map int_of_string (String.split_on_char ':' s)
let tl s k = String.sub s k (String.length s - k)
let action_of a =
  if a = "-" || a = "wr" || a = "zw" then Some ANop else   (* wr, zw: epilogues of the harness without observable events *)
  match a.[0] with
  | 't' when String.length a > 1 && (a.[1] = 'a' || a.[1] = 'u') ->
    (* the relative entry points: tickit_watch_timer_after_msec / _after_tv: a deadline, like any other *)
    (match ints (tl a 2) with [d; fl; cb] -> Some (ATimer (zi (if a.[1] = 'a' then d * 1000 else d), flags_of fl, zi cb)) | _ -> failwith "ta")
  | 't' -> (match ints (tl a 1) with [d; fl; cb] -> Some (ATimer (zi d, flags_of fl, zi cb)) | _ -> failwith "t")
  | 'l' -> (match ints (tl a 1) with [fl; cb] -> Some (ALater (flags_of fl, zi cb)) | _ -> failwith "l")
  | 'w' ->
    (match a.[1], ints (tl a 2) with
     | 'i', [_; _; fl; cb] -> Some (AWatch (KIo, Z0, flags_of fl, zi cb))
     | 's', [sg; fl; cb] -> Some (AWatch (KSig, zi sg, flags_of fl, zi cb))
     | 'p', [fl; cb] -> Some (AWatch (KProc, Z0, flags_of fl, zi cb))
     | _ -> failwith "w")
  | 'c' when String.length a > 1 && a.[1] <> 'b' -> Some (ACancel (zi (int_of_string (tl a 1))))
  | 'd' when String.length a = 1 -> Some ADrop
  | _ -> None
let parse_case line =
  let cbs = Hashtbl.create 8 and ubs = Hashtbl.create 8 in
  let ops = ref [] in
  let table tbl tok =
    match String.index_opt tok '=' with
    | Some i ->
      let k = int_of_string (String.sub tok 2 (i - 2)) in
      let acts = List.filter (fun x -> x <> "") (String.split_on_char ',' (tl tok (i + 1))) in
      Hashtbl.replace tbl k (List.map (fun a -> match action_of a with Some x -> x | None -> failwith ("act " ^ a)) acts)
    | None -> failwith "table" in
  List.iter (fun tok ->
      if String.length tok > 2 && tok.[0] = 'c' && tok.[1] = 'b' then table cbs tok
      else if String.length tok > 2 && tok.[0] = 'u' && tok.[1] = 'b' then table ubs tok
      else
        match action_of tok with
        | Some a -> ops := OAct a :: !ops
        | None ->
          (match tok.[0] with
           | 'r' -> ops := ORun (zi (int_of_string (tl tok 1))) :: !ops
           | 'o' -> ops := OOnce :: !ops
           | _ -> failwith ("op " ^ tok)))
    (split_ws line);
  let env z = try Hashtbl.find cbs (int_of_z z) with Not_found -> [] in
  let uenv z = try Hashtbl.find ubs (int_of_z z) with Not_found -> [] in
  (env, uenv, List.rev !ops)
let kind_of_int = function 0 -> KTimer | 1 -> KLater | 2 -> KIo | 3 -> KSig | 4 -> KProc | _ -> failwith "kind"
let int_of_kind = function KTimer -> 0 | KLater -> 1 | KIo -> 2 | KSig -> 3 | KProc -> 4
let pr_obs l =
  if l = [] then "-" else
  String.concat " " (List.map (function
      | OPoll m -> Printf.sprintf "p%d" (int_of_z m)
      | OEv e -> Printf.sprintf "e%d:%d:%d:%d:%d:%d" (int_of_z e.e_id) (int_of_kind e.e_kind) (int_of_z e.e_flags)
                   (int_of_z e.e_iter) (int_of_z e.e_now) (int_of_z e.e_x)) l)
let parse_obs s =
  List.map (fun tok ->
      match tok.[0] with
      | 'p' -> OPoll (zi (int_of_string (tl tok 1)))
      | 'e' -> (match ints (tl tok 1) with
          | [id; k; fl; it; nw; x] -> OEv { e_id = zi id; e_kind = kind_of_int k; e_flags = zi fl; e_iter = zi it; e_now = zi nw; e_x = zi x }
          | _ -> failwith "event")
      | _ -> failwith ("obs " ^ tok))
    (List.filter (fun x -> x <> "-") (split_ws s))
let rec nat_of_int n = if n <= 0 then O else S (nat_of_int (n - 1))
let pinned = (try Sys.getenv "VERIF_C17_PINNED" = "1" with Not_found -> false)
let seeded3 = (try Sys.getenv "VERIF_C17_SEEDED3" = "1" with Not_found -> false)
let model line =
  let (env, uenv, ops) = parse_case line in
  if pinned then
    (* the pinned library (LoopAsIs.v, and the UNBIND|UNBIND mask of tickit_watch_io) *)
    match a_run true env (nat_of_int 3000) ops with
    | Some l -> pr_obs l
    | None -> "FAULT"
  else
    match (if seeded3 then h_run seeded3 env uenv ops else h_runx false env uenv ops) with
    | None -> "FAULT"
    | Some (l, leakfree) ->
      if (not seeded3) && l <> runx false env uenv ops then "ERR heap model and list model disagree" else
      if leakfree then pr_obs l else if l = [] then "LEAK" else pr_obs l ^ " LEAK"
let oracle line =
  match String.index_opt line '|' with
  | Some i ->
    let c = String.sub line 0 i and o = tl line (i + 1) in
    let (env, uenv, ops) = parse_case c in
    (* a script in which the application drops its reference ends with the tick during which that
       happens (LoopDefs.runx): the specification is applied to that prefix; the destroy
       notifications then carry the iteration number of that tick instead of -1 *)
    let rec firstn k l = if k <= 0 then [] else match l with [] -> [] | x :: r -> x :: firstn (k - 1) r in
    let n = List.length ops in
    let rec cut k = if k > n then (ops, false) else
        let p = firstn k ops in if snd (run_opsx false env uenv p st0) then (p, true) else cut (k + 1) in
    let (ops, early) = cut 1 in
    (match (try Some (parse_obs o) with _ -> None) with
     | None -> "BAD unreadable observation"
     | Some obs ->
       let obs = if not early then obs else
           List.map (function OEv e when int_of_z e.e_flags land 4 <> 0 -> OEv { e with e_iter = zi (-1) } | x -> x) obs in
       if spec_checkb env uenv ops obs then "OK" else "BAD differs from the specification: " ^ pr_obs (spec_run env uenv ops))
  | None -> "BAD"
(* ---- chain cases "WS ..." (signal chain) / "WP ..." (process chain): model LoopChain.h_crun (heap level: FAULT / LEAK),
   oracle LoopChain.l_checkb (the snapshot specification).  Actions ws<sig>:<fl>:<cb> / wp<fl>:<cb>, c<id>, -;
   ops G<sig> (signal dispatch), H (SIGCHLD dispatch), X<id>:<status>, r0 *)
let chain_mode line = match split_ws line with "WS" :: _ -> Some false | "WP" :: _ -> Some true | _ -> None
let cact_of proc a =
  if a = "-" then Some CNop else
  match a.[0] with
  | 'w' ->
    (match a.[1], ints (tl a 2) with
     | 's', [sg; fl; cb] when not proc -> Some (CReg (fl land 1 <> 0, zi sg, fl land 2 <> 0, fl land 4 <> 0, zi cb))
     | 'p', [fl; cb] when proc -> Some (CReg (fl land 1 <> 0, Z0, fl land 2 <> 0, fl land 4 <> 0, zi cb))
     | _ -> failwith "chain w")
  | 'c' when String.length a > 1 && a.[1] <> 'b' -> Some (CCancel (zi (int_of_string (tl a 1))))
  | _ -> None
let parse_chain proc line =
  let cbs = Hashtbl.create 8 in
  let ops = ref [] in
  List.iter (fun tok ->
      if tok = "WS" || tok = "WP" then () else
      if String.length tok > 2 && tok.[0] = 'c' && tok.[1] = 'b' then begin
        match String.index_opt tok '=' with
        | Some i ->
          let k = int_of_string (String.sub tok 2 (i - 2)) in
          let acts = List.filter (fun x -> x <> "") (String.split_on_char ',' (tl tok (i + 1))) in
          Hashtbl.replace cbs k (List.map (fun a -> match cact_of proc a with Some x -> x | None -> failwith ("act " ^ a)) acts)
        | None -> failwith "cb"
      end else
        match cact_of proc tok with
        | Some a -> ops := KAct a :: !ops
        | None ->
          (match tok.[0] with
           | 'G' -> ops := KWalk (zi (int_of_string (tl tok 1))) :: !ops
           | 'H' -> ops := KWalk Z0 :: !ops
           | 'X' -> (match ints (tl tok 1) with [id; st] -> ops := KExit (zi id, zi st) :: !ops | _ -> failwith "X")
           | 'r' -> ops := KTick :: !ops
           | _ -> failwith ("op " ^ tok)))
    (split_ws line);
  let env z = try Hashtbl.find cbs (int_of_z z) with Not_found -> [] in
  (env, List.rev !ops)
let chain_model proc line =
  let (env, ops) = parse_chain proc line in
  match h_crun proc env (nat_of_int 3000) ops with
  | None -> "FAULT"
  | Some (l, leakfree) ->
    if l <> l_run proc env ops then "ERR heap level and specification disagree" else
    if leakfree then pr_obs l else if l = [] then "LEAK" else pr_obs l ^ " LEAK"
let chain_oracle proc c o =
  let (env, ops) = parse_chain proc c in
  match (try Some (parse_obs o) with _ -> None) with
  | None -> "BAD unreadable observation"
  | Some obs -> if l_checkb proc env ops obs then "OK" else "BAD differs from the chain specification: " ^ pr_obs (l_run proc env ops)
(* ---- IO cases "WI ...": model LoopIo.hi_run (heap level of the IO watches of the built instance: chain + the default
   loop's slot arrays; FAULT / LEAK), oracle LoopIo.j_checkb.  Actions wi<fdindex>:1:<fl>:<cb>, c<id>, -; ops
   R<fdindex>:1 (the descriptor is ready at the next poll), r0.  The model numbers the terminal watch of tickit_build 0:
   the harness's watch k is the model's k+1. *)
let io_mode line = match split_ws line with "WI" :: _ -> true | _ -> false
let iact_of a =
  if a = "-" then Some INop else
  match a.[0] with
  | 'w' ->
    (match a.[1], ints (tl a 2) with
     | 'i', [fd; _; fl; cb] -> Some (IReg (fl land 1 <> 0, zi fd, fl land 2 <> 0, fl land 4 <> 0, zi cb))
     | _ -> failwith "io w")
  | 'c' when String.length a > 1 && a.[1] <> 'b' -> Some (ICancel (zi (int_of_string (tl a 1) + 1)))
  | _ -> None
let parse_io line =
  let cbs = Hashtbl.create 8 in
  let ops = ref [] and ready = ref [] in
  List.iter (fun tok ->
      if tok = "WI" then () else
      if String.length tok > 2 && tok.[0] = 'c' && tok.[1] = 'b' then begin
        match String.index_opt tok '=' with
        | Some i ->
          let k = int_of_string (String.sub tok 2 (i - 2)) in
          let acts = List.filter (fun x -> x <> "") (String.split_on_char ',' (tl tok (i + 1))) in
          Hashtbl.replace cbs k (List.map (fun a -> match iact_of a with Some x -> x | None -> failwith ("act " ^ a)) acts)
        | None -> failwith "cb"
      end else
        match iact_of tok with
        | Some a -> ops := JAct a :: !ops
        | None ->
          (match tok.[0] with
           | 'R' -> (match ints (tl tok 1) with [f; _] -> ready := zi f :: !ready | _ -> failwith "R")
           | 'r' -> ops := JTick (List.rev !ready) :: !ops; ready := []
           | _ -> failwith ("op " ^ tok)))
    (split_ws line);
  let env z = try Hashtbl.find cbs (int_of_z z) with Not_found -> [] in
  (env, List.rev !ops)
let shift d = List.map (function OEv e -> OEv { e with e_id = zi (int_of_z e.e_id + d) } | x -> x)
let io_model line =
  let (env, ops) = parse_io line in
  match hi_run env ops with
  | None -> "FAULT"
  | Some (l, leakfree) ->
    if l <> j_run env ops then "ERR heap level and specification disagree" else
    let l = shift (-1) l in
    if leakfree then pr_obs l else if l = [] then "LEAK" else pr_obs l ^ " LEAK"
let io_oracle c o =
  let (env, ops) = parse_io c in
  match (try Some (parse_obs o) with _ -> None) with
  | None -> "BAD unreadable observation"
  | Some obs -> if j_checkb env ops (shift 1 obs) then "OK" else "BAD differs from the IO specification: " ^ pr_obs (shift (-1) (j_run env ops))
(* ---- nest cases "WN ...": model LoopNest.n_run -- nested iterations (callback action n = tickit_tick(NOHANG) from inside
   a callback) and DESTROY handlers that act (db<k>=<acts>: run when callback k is notified by tickit_destroy).
   VERIF_C17_ASSIGN=1 / VERIF_C17_DETACH=1: the seeded variants. *)
let nest_mode line = match split_ws line with "WN" :: _ -> true | _ -> false
let assign = (try Sys.getenv "VERIF_C17_ASSIGN" = "1" with Not_found -> false)
let detach = (try Sys.getenv "VERIF_C17_DETACH" = "1" with Not_found -> false)
let parse_nest line =
  let cbs = Hashtbl.create 8 and dbs = Hashtbl.create 8 in
  let ops = ref [] in
  let nact_of a = if a = "n" then NTick else match action_of a with Some x -> NA x | None -> failwith ("act " ^ a) in
  List.iter (fun tok ->
      if tok = "WN" then () else
      if String.length tok > 2 && (tok.[0] = 'c' || tok.[0] = 'd') && tok.[1] = 'b' then begin
        match String.index_opt tok '=' with
        | Some i ->
          let k = int_of_string (String.sub tok 2 (i - 2)) in
          let acts = List.filter (fun x -> x <> "") (String.split_on_char ',' (tl tok (i + 1))) in
          if tok.[0] = 'c' then Hashtbl.replace cbs k (List.map nact_of acts)
          else Hashtbl.replace dbs k (List.map (fun a -> match action_of a with Some x -> x | None -> failwith ("act " ^ a)) acts)
        | None -> failwith "table"
      end else
        match (if tok = "n" then Some NTick else match action_of tok with Some a -> Some (NA a) | None -> None) with
        | Some a -> ops := NAct a :: !ops
        | None ->
          (match tok.[0] with
           | 'r' -> ops := NRun (zi (int_of_string (tl tok 1))) :: !ops
           | _ -> failwith ("op " ^ tok)))
    (split_ws line);
  let env z = try Hashtbl.find cbs (int_of_z z) with Not_found -> [] in
  let denv z = try Hashtbl.find dbs (int_of_z z) with Not_found -> [] in
  (env, denv, List.rev !ops)
let nest_model line =
  let (env, denv, ops) = parse_nest line in
  match n_run assign detach env denv (nat_of_int 3000) ops with
  | None -> "NONE fuel"
  | Some (l, clean) -> if clean then pr_obs l else if l = [] then "LEAK" else pr_obs l ^ " LEAK"
let nest_oracle c o =
  let (env, denv, ops) = parse_nest c in
  let leak = List.mem "LEAK" (split_ws o) in
  let o = String.concat " " (List.filter (fun t -> t <> "LEAK") (split_ws o)) in
  match (try Some (parse_obs o) with _ -> None) with
  | None -> "BAD unreadable observation"
  | Some obs ->
    if leak then "BAD a watch was never destroyed (leak)" else
    if n_checkb false false env denv (nat_of_int 3000) ops obs then "OK"
    else "BAD differs from the nested-iteration / destroy-handler model: " ^ (match n_run false false env denv (nat_of_int 3000) ops with Some (l, _) -> pr_obs l | None -> "?")
let model line = if nest_mode line then nest_model line else if io_mode line then io_model line else match chain_mode line with Some proc -> chain_model proc line | None -> model line
let oracle line =
  match String.index_opt line '|' with
  | Some i when nest_mode line -> nest_oracle (String.sub line 0 i) (tl line (i + 1))
  | Some i when io_mode line -> io_oracle (String.sub line 0 i) (tl line (i + 1))
  | Some i when chain_mode line <> None ->
    (match chain_mode line with Some proc -> chain_oracle proc (String.sub line 0 i) (tl line (i + 1)) | None -> "BAD")
  | _ -> oracle line
let () =
  let f = if Array.length Sys.argv > 1 && Sys.argv.(1) = "oracle" then oracle else model in
  iter_lines (fun l -> print_endline (try f l with Failure m -> "ERR " ^ m | Not_found -> "ERR nf" | Invalid_argument m -> "ERR " ^ m))
