(* driver for C15: after every flush the terminal cursor must be what [cursor_spec] computes
   from the tree the implementation reports (including the focus links); the focus events of
   every take_focus must be exactly the demanded ones, every OUT before every IN. *)
let parse_fevs (s : string) =
  if s = "-" then [] else
    List.map (fun e ->
        let k = try String.index_from e 1 '+' with Not_found -> (try String.index_from e 1 '-' with Not_found -> failwith "fev") in
        let k = (* a '-' may also start the second number; take the first sign after the first digit run *)
          let rec first i = if i >= String.length e then failwith "fev" else
              if (e.[i] = '+' || e.[i] = '-') && i > 0 then i else first (i + 1) in
          ignore k; first 1 in
        let rid = int_of_string (String.sub e 0 k) and wid = int_of_string (String.sub e (k + 1) (String.length e - k - 1)) in
        ((zi rid, e.[k] = '+'), zi wid)) (String.split_on_char ';' s)

let oracle_c15 (line : string) : string =
  let (c, o) = split_case_obs line in
  if String.length o >= 3 && (String.sub o 0 3 = "CRA" || String.sub o 0 3 = "ERR" || String.sub o 0 3 = "FAU") then "BAD the implementation crashed or the observation is malformed" else
  let cs = parse_case c in
  let recs = parse_obs o in
  (* the targets of the take_focus operations, in order *)
  let targets = ref (List.filter_map (function Op (OFocus id) -> Some id | _ -> None) cs.items) in
  let bad = ref None in
  List.iteri (fun k r ->
      if !bad = None then
        if r.kind = "F" then begin
          let t = parse_tree (field r "T") in
          let cur = field r "C" in
          let ok = match ints (String.split_on_char ',' cur) with
            | [0] -> c15_cursor_checkb t false (zi 0) (zi 0) (zi 0)
            | [1; l; cc; sh; _] -> c15_cursor_checkb t true (zi l) (zi cc) (zi sh)
            | _ -> false in
          if not ok then bad := Some (Printf.sprintf "record %d: cursor is not where cursor_spec puts it" k)
          else if not (c15_links_kept_checkb (parse_tree (field r "U")) t) then
            bad := Some (Printf.sprintf "record %d: the flush changed a focus link or a focused flag" k)
        end else if r.kind = "SH" then begin
          if not (c15_show_checkb (zi (int_of_string (field r "W"))) (parse_tree (field r "U")) (parse_tree (field r "T"))) then
            bad := Some (Printf.sprintf "record %d: show did not leave the focus links as demanded (the window becomes its parent's focused child only if the parent has none and the window holds or contains the focus)" k)
        end else if r.kind = "HI" then begin
          if not (c15_hide_checkb (zi (int_of_string (field r "W"))) (parse_tree (field r "U")) (parse_tree (field r "T"))) then
            bad := Some (Printf.sprintf "record %d: hide did not leave the focus links as demanded (the parent's link is dropped exactly when it names the hidden window)" k)
        end else if r.kind = "TF" then begin
          let t = parse_tree (field r "T") in
          match !targets with
          | [] -> bad := Some "more TF records than take_focus operations"
          | w :: rest ->
            targets := rest;
            if not (c15_focus_checkb t w (parse_fevs (field r "E"))) then
              bad := Some (Printf.sprintf "record %d: focus events are not the demanded ones (OUT before IN, holders and notifying parents told)" k)
        end) recs;
  match !bad with None -> "OK" | Some m -> "BAD " ^ m

let () = main oracle_c15
