(* driver for C20: case "<termtype> <hexstream> <cuts|-> <tok> <tok> ..." where the tokens are
   what the system's libtermkey finds in the WHOLE stream (harness/C20_tok.c).
   the cuts may carry a gap ("<cut>+<usec>"): virtual time that passes after the chunk, before
   the time-out is polled.  A termtype "<name>@<usec>" makes every key / mouse handler take <usec>
   of virtual time (VERIF_C20_EARLY=1: the seeded variant that reads the clock before the handlers run).
   model : InputDefs.tpush / tpoll over the chunks (the drain and feed loops of push_bytes), with the abstract tokenizer instantiated by
           the dictionary { bytes of a token |-> its key } (shortest match; a non-empty buffer
           that starts with no known token is "again"), buffer capacity 256.
           VERIF_C20_PINNED=1 uses push_bytes_pinned (the truncating push).
   oracle: InputSpec.input_checkb on the implementation's events against the key list. *)
let zi = z_of_int
let rec nat_of_int n = if n <= 0 then O else S (nat_of_int (n - 1))
let rec int_of_nat = function O -> 0 | S n -> 1 + int_of_nat n
let tl s k = String.sub s k (String.length s - k)
let bytes_of_hex h =
  if h = "-" then [] else
  List.init (String.length h / 2) (fun i -> int_of_string ("0x" ^ String.sub h (2 * i) 2))
let hex_of l = if l = [] then "-" else String.concat "" (List.map (fun z -> Printf.sprintf "%02x" (int_of_z z)) l)
let ktype_of = function "U" -> TUnicode | "F" -> TFunction | "S" -> TKeysym | "M" -> TMouse | "R" -> TModeReport
                      | "D" -> TDcs | _ -> TOther
(* token "L<len>:<type>:<mod>:<n1>:<n2>:<n3>:<n4>:<hexA>:<hexB>" *)
let parse_tok t =
  match String.split_on_char ':' (tl t 1) with
  | [len; ty; md; n1; n2; n3; n4; ha; hb] ->
    (int_of_string len,
     { k_type = ktype_of ty; k_mod = zi (int_of_string md);
       k_utf8 = List.map zi (bytes_of_hex ha); k_name = List.map zi (bytes_of_hex hb);
       k_ev = zi (int_of_string n1); k_button = zi (int_of_string n2);
       k_line = zi (int_of_string n3); k_col = zi (int_of_string n4) })
  | _ -> failwith "tok"
let parse_case line =
  match split_ws line with
  | tt :: hex :: cuts :: toks ->
    (* "<termtype>@<usec>": every key / mouse handler of the application takes <usec> of virtual time *)
    (* "<termtype>%": the handlers claim every event (return 1); no effect on what is emitted *)
    let ht = (match String.index_opt tt '@' with Some i -> int_of_string (tl tt (i + 1)) | None -> 0) in
    let bytes = Array.of_list (bytes_of_hex hex) in
    let n = Array.length bytes in
    let cuts = if cuts = "-" then [] else
        List.map (fun c ->
            (* "<cut>~<w>~<w>": waits of the application after the chunk; <w> = msec or T<sec>:<usec> *)
            match String.split_on_char '~' c with
            | p :: (_ :: _ as ws) ->
              let w_of w = if w <> "" && w.[0] = 'T' then
                  (match String.split_on_char ':' (tl w 1) with
                   | [sec; usec] -> int_of_z (wait_tv_msec false (zi (int_of_string sec)) (zi (int_of_string usec)))
                   | _ -> failwith "wait") else int_of_string w in
              (int_of_string p, 0, Some (List.map w_of ws))
            | _ ->
            match String.split_on_char '+' c with
            | [p] -> (int_of_string p, 0, None) | [p; g] -> (int_of_string p, int_of_string g, None) | _ -> failwith "cut")
          (String.split_on_char ',' cuts) in
    (* (chunk, gap after it); the rest of the stream is pushed last, with no gap *)
    let rec chunks pos = function
      | [] -> [(Array.to_list (Array.sub bytes pos (n - pos)), 0, None)]
      | (c, g, w) :: r -> if c < pos || c > n then chunks pos r else (Array.to_list (Array.sub bytes pos (c - pos)), g, w) :: chunks c r in
    let chunks = List.map (fun (c, g, w) -> (List.map zi c, g, w)) (chunks 0 cuts) in
    let dict = Hashtbl.create 64 in
    let maxlen = ref 0 in
    let pos = ref 0 in
    let keys = ref [] in
    let leftover = ref false in
    List.iter (fun t ->
        if t = "-" then () else
        if t.[0] = 'A' then leftover := true
        else begin
          let (len, k) = parse_tok t in
          if !pos + len > n then failwith "tokens exceed stream";
          let s = String.init len (fun i -> Char.chr bytes.(!pos + i)) in
          if not (Hashtbl.mem dict s) then Hashtbl.add dict s k;
          if len > !maxlen then maxlen := len;
          pos := !pos + len;
          keys := k :: !keys
        end) toks;
    let tok (buf : z list) =
      if buf = [] then TNone else begin
        let b = Buffer.create 16 in
        let rec go l i =
          if i > !maxlen then TAgain else
          match l with
          | [] -> TAgain
          | x :: r ->
            Buffer.add_char b (Char.chr (int_of_z x));
            (match Hashtbl.find_opt dict (Buffer.contents b) with
             | Some k -> TKey (k, nat_of_int i)
             | None -> go r (i + 1)) in
        go buf 1
      end in
    (chunks, tok, List.rev !keys, !leftover, ht)
  | _ -> failwith "case"
let pr_event = function
  | EvKey (t, m, s) -> Printf.sprintf "k%d:%d:%s" (int_of_z t) (int_of_z m) (hex_of s)
  | EvMouse (t, b, l, c, m) -> Printf.sprintf "m%d:%d:%d:%d:%d" (int_of_z t) (int_of_z b) (int_of_z l) (int_of_z c) (int_of_z m)
let cap = nat_of_int 256
let pinned = (try Sys.getenv "VERIF_C20_PINNED" = "1" with Not_found -> false)
let wait = zi 50000
let stale = (try Sys.getenv "VERIF_C20_STALE" = "1" with Not_found -> false)
let early = (try Sys.getenv "VERIF_C20_EARLY" = "1" with Not_found -> false)
let waitforce = (try Sys.getenv "VERIF_C20_WAITFORCE" = "1" with Not_found -> false)
let model line =
  let (chunks, tok, _, _, ht) = parse_case line in
  (* one push per chunk, then its gap, then the poll of the time-out (as the harness does) *)
  let res =
    List.fold_left (fun acc (c, g, ws) -> match acc with
        | None -> None
        | Some (out, now, ts) ->
          let pushed =
            if pinned then
              (match push_bytes_pinned tok cap ts.t_in c with
               | Some (e, s') -> Some ((e, { t_in = s'; t_deadline = (if s'.i_armed then Some (z_of_int (now + 50000)) else None) }), zi now)
               | None -> None)
            else tpush tok cap wait stale early (zi ht) (zi now) ts c in
          (match pushed with
           | None -> None
           | Some ((e, ts'), now1) when ws <> None ->
             (* the application waits; the waits time out (VERIF_C20_WAITFORCE=1: the pinned wait path) *)
             let out = out @ List.map pr_event e in
             let (out, now', ts'') = List.fold_left (fun (out, now, ts) m ->
                 match twait waitforce (zi m) (zi now) ts with
                 | None -> (out @ ["FORCED"], now, ts)
                 | Some (ts1, now1) ->
                   let now1 = int_of_z now1 in
                   (out @ [Printf.sprintf "w%d" (now1 - now); Printf.sprintf "a%d" (int_of_z (wait_left (zi now1) ts1))], now1, ts1))
                 (out, int_of_z now1, ts') (match ws with Some l -> l | None -> []) in
             Some (out, now', ts'')
           | Some ((e, ts'), now1) ->
             let now' = int_of_z now1 + g in
             (match tpoll (zi now') ts' with
              | None -> Some (out @ List.map pr_event e @ ["FORCED"], now', ts')
              | Some m -> Some (out @ List.map pr_event e @ [Printf.sprintf "a%d" (int_of_z m)], now', ts'))))
      (Some ([], 0, tst0)) chunks in
  match res with
  | None -> "NONE fuel exhausted"
  | Some (out, _, ts) -> String.concat " " (out @ [Printf.sprintf "h%d" (int_of_z ts.t_in.i_held)])
let parse_obs o =
  let evs = ref [] and held = ref 0 and armed = ref false in
  List.iter (fun t ->
      let f = List.map (fun x -> x) (String.split_on_char ':' (tl t 1)) in
      match t.[0], f with
      | 'k', [ty; md; s] -> evs := EvKey (zi (int_of_string ty), zi (int_of_string md), List.map zi (bytes_of_hex s)) :: !evs
      | 'm', [ty; b; l; c; md] -> evs := EvMouse (zi (int_of_string ty), zi (int_of_string b), zi (int_of_string l), zi (int_of_string c), zi (int_of_string md)) :: !evs
      | 'a', [v] -> armed := int_of_string v >= 0
      | 'w', [_] -> ()
      | 'h', [v] -> held := int_of_string v
      | _ -> failwith "obs") (split_ws o);
  (List.rev !evs, !held, !armed)
let oracle line =
  match String.index_opt line '|' with
  | Some i when line.[0] = '!' ->
    (* malformed stream: outside the property's quantifier; only a crash is a failure *)
    let o = String.trim (tl line (i + 1)) in
    if String.length o >= 5 && String.sub o 0 5 = "CRASH" then "BAD crash on malformed input" else "OK"
  | Some i ->
    let c = String.sub line 0 i and o = tl line (i + 1) in
    let (_, _, keys, leftover, _) = parse_case c in
    (match (try Some (parse_obs o) with _ -> None) with
     | None -> "BAD unreadable observation"
     | Some (evs, held, armed) ->
       (* the waits: each must have taken what InputDefs.twait says (the caller's time-out, or what was left to the
          sequence's deadline); not judged when the deadline is reached (FORCED: outside the property) *)
       let ws l = List.filter (fun t -> t.[0] = 'w') (split_ws l) in
       let m = model c in
       let forced = List.mem "FORCED" (split_ws m) in
       if (not forced) && ws m <> ws o then "BAD a wait did not take the time it was given: expected " ^ String.concat " " (ws m) else
       if input_checkb keys leftover evs (zi held) armed then "OK"
       else "BAD events differ from those of the whole stream's keys")
  | None -> "BAD"
let () =
  let f = if Array.length Sys.argv > 1 && Sys.argv.(1) = "oracle" then oracle else model in
  iter_lines (fun l -> print_endline (try f l with Failure m -> "ERR " ^ m | Not_found -> "ERR nf" | Invalid_argument m -> "ERR " ^ m))
