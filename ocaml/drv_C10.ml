(* driver for C10; see harness/C10.c for the case and observation formats. *)
let parse_op s =
  match split_on ':' s with
  | ["s"; p] -> (true, parse_pen p)
  | ["c"; p] -> (false, parse_pen p)
  | _ -> failwith "op"
(* the pen object reused through the case: p sets attributes on it, k clears the named ones, S / C hand it to
   setpen / chpen.  Returns per op: None (no request; prints ".") or the request *)
let effective_ops (ops : string list) : (bool * pen) option list =
  let overlay base p = (fun a -> match p a with Some v -> Some v | None -> base a) in
  let rec go reuse = function
    | [] -> []
    | op :: r ->
      (match split_on ':' op with
       | ["p"; p] -> None :: go (overlay reuse (parse_pen p)) r
       | ["k"; p] -> let q = parse_pen p in None :: go (fun a -> match q a with Some _ -> None | None -> reuse a) r
       | ["S"; _] -> Some (true, reuse) :: go reuse r
       | ["C"; _] -> Some (false, reuse) :: go reuse r
       | _ -> Some (parse_op op) :: go reuse r) in
  go empty_pen ops
let model line =
  match split_ws line with
  | "X" :: colon :: rgb :: ops ->
    let colon = colon <> "0" and rgb = rgb <> "0" in
    let b = Buffer.create 256 in
    Buffer.add_string b ("I:" ^ hex_of_bytes (render xt_start));
    let _ = List.fold_left (fun st op ->
        match st, op with
        | None, _ -> Buffer.add_string b " FAULT"; None
        | Some s, None -> Buffer.add_string b " ."; Some s
        | Some s, Some (is_set, p) ->
          (match (if is_set then do_setpen else do_chpen) chpen_params_capacity colon rgb s p with
           | None -> Buffer.add_string b " FAULT"; None
           | Some (s', toks) -> Buffer.add_string b (" " ^ hex_of_bytes (render toks)); Some s'))
        (Some { tp_pen = empty_pen; tp_colors = xterm_colors }) (effective_ops ops) in
    Buffer.contents b
  | "D" :: colors :: ops ->
    let colors = zi colors in
    let b = Buffer.create 256 in
    Buffer.add_string b "D";
    let _ = List.fold_left (fun st op ->
        match st, op with
        | None, _ -> Buffer.add_string b " FAULT"; None
        | Some tp, None -> Buffer.add_string b " ."; Some tp
        | Some tp, Some (is_set, p) ->
          (match (if is_set then term_setpen else term_chpen) colors tp p with
           | None -> Buffer.add_string b " FAULT"; None
           | Some (tp', delta) ->
             Buffer.add_string b (" " ^ string_of_pen delta ^ ">" ^ string_of_pen tp'); Some tp'))
        (Some empty_pen) (effective_ops ops) in
    Buffer.contents b
  | _ -> failwith "case"
let verdict = function
  | POk n -> Printf.sprintf "OK %d" (int_of_nat n)
  | POutOfRange i -> Printf.sprintf "OK range@%d" (int_of_nat i)
  | PBadAt (i, w) -> Printf.sprintf "BAD @%d why=%d" (int_of_nat i) (int_of_nat w)
let oracle line =
  match String.split_on_char '|' line with
  | [c; o] ->
    (match split_ws c, split_ws o with
     | "X" :: colon :: rgb :: ops, init :: obs
       when String.length init >= 2 && String.sub init 0 2 = "I:" && List.length obs = List.length ops ->
       let start = bytes_of_hex (String.sub init 2 (String.length init - 2)) in
       let v0 = vt_run_bytes start (vt_init (z_of_int 5) (z_of_int 10)) in
       let items = List.concat (List.map2 (fun op ob ->
           match op with None -> if ob = "." then [] else failwith "obs ." | Some o -> [(o, bytes_of_hex ob)]) (effective_ops ops) obs) in
       verdict (oracle_pens (colon <> "0") (rgb <> "0") O empty_pen v0 items)
     | "D" :: colors :: ops, "D" :: obs when List.length obs = List.length ops ->
       let items = List.concat (List.map2 (fun op ob ->
           match op, split_on '>' ob with
           | None, _ -> if ob = "." then [] else failwith "obs ."
           | Some o, [d; f] -> [((o, parse_pen d), parse_pen f)]
           | _ -> failwith "obs") (effective_ops ops) obs) in
       verdict (oracle_deltas (zi colors) O empty_pen items)
     | _ -> "BAD obs")
  | _ -> "BAD line"
let () =
  let f = if Array.length Sys.argv > 1 && Sys.argv.(1) = "oracle" then oracle else model in
  iter_lines (fun l -> print_endline (try f l with Failure m -> (if f == oracle then "BAD ERR " else "ERR ") ^ m
                                                 | Invalid_argument m -> "BAD ERR " ^ m))
