(* driver for C04: rb_common.ml plus the flush ops
     fl tl tc gl gc P   flush onto a tl x tc mock terminal (sentinel pattern, cursor (gl,gc), pen P)
                        observation  F{op log}{final grid}
     flm tl tc gl gc P  the same on a terminal whose erasech(..., MAYBE) leaves the cursor where it
                        was (as xterm's ECH does); the mock terminal moves it
     flx tl tc          flush through the xterm driver; observation X{payload code points}
     lct                the compiled linemask_to_char table; observation L{hex.hex...}
     tp tl tc gl gc T   print text T on a tl x tc mock terminal (sentinel pattern, cursor (gl,gc),
                        empty pen) through the mock driver's print; observation P{line.col}{grid}.
                        T up to its first NUL is a valid text (that much is printed), or begins
                        with an invalid code point (then nothing is printed).
   After a flush the buffer is reset (a following D shows it). *)

let pr_termop tl tc = function
  | TGoto (l, c) -> Printf.sprintf "G%d.%d" (max 0 (min (iz l) (tl - 1))) (max 0 (min (iz c) (tc - 1)))
  | TSetPen p -> "P" ^ pr_pen (canon_pen p)
  | TPrint s -> "T" ^ pr_text s
  | TErase (n, m) -> Printf.sprintf "X%d.%d" (iz n) (if m then 1 else 0)

let pr_grid g =
  String.concat "/" (List.map (fun r ->
      String.concat "," (List.map (fun c -> pr_text c.t_text ^ ":" ^ pr_pen (canon_pen c.t_pen)) r)) g)

let parse_termop s =
  let rest = String.sub s 1 (String.length s - 1) in
  let two () = match String.split_on_char '.' rest with
    | [a; b] -> (int_of_string a, int_of_string b) | _ -> failwith "termop" in
  match s.[0] with
  | 'G' -> let (a, b) = two () in TGoto (zi a, zi b)
  | 'P' -> TSetPen (parse_pen rest)
  | 'T' -> TPrint (parse_text rest)
  | 'X' -> let (a, b) = two () in TErase (zi a, b <> 0)
  | _ -> failwith "termop"

let parse_tgrid s =
  List.map (fun r -> List.map (fun c ->
      match String.split_on_char ':' c with
      | [t; p] -> { t_text = parse_text t; t_pen = parse_pen p }
      | _ -> failwith "tcell") (String.split_on_char ',' r)) (String.split_on_char '/' s)

let braces tok =   (* "K{a}{b}" -> [a; b] *)
  let n = String.length tok in
  if n < 3 || tok.[1] <> '{' || tok.[n - 1] <> '}' then failwith "braces";
  split_on_string "}{" (String.sub tok 2 (n - 3))

let pen_arg p = if p = "null" then pen_empty else parse_pen p

let () =
  ext_arity := (function "fl" | "flm" | "tp" -> Some 5 | "flx" -> Some 2 | "lct" -> Some 0 | _ -> None);
  ext_model := (fun bufs cur kw args ->
      match kw, args with
      | ("fl" | "flm"), [tl; tc; gl; gc; p] ->
        let tl = int_of_string tl and tc = int_of_string tc in
        let (ops, s') = unres (flush bufs.(cur)) in
        bufs.(cur) <- s';
        let t0 = t_init (zi tl) (zi tc) (zi (int_of_string gl)) (zi (int_of_string gc)) (pen_arg p) (kw = "fl") in
        let log = String.concat "," (List.map (pr_termop tl tc) ops) in
        (match t_run t0 ops with
         | Ok t1 -> [Printf.sprintf "F{%s}{%s}" log (pr_grid t1.tg)]
         | Fault -> [Printf.sprintf "F{%s}{TERMFAULT}" log]
         | NoFuel -> [Printf.sprintf "F{%s}{NOFUEL}" log])
      | "flx", [_; _] ->
        let (ops, s') = unres (flush bufs.(cur)) in
        bufs.(cur) <- s';
        let payload = xterm_payload pen_empty ops in
        [Printf.sprintf "X{%s}" (pr_text payload)]
      | "lct", [] ->
        [Printf.sprintf "L{%s}" (String.concat "." (List.map (fun c -> Printf.sprintf "%x" (iz c)) linemask_to_char))]
      | "tp", [tl; tc; gl; gc; t] ->
        let t0 = t_init (zi (int_of_string tl)) (zi (int_of_string tc)) (zi (int_of_string gl)) (zi (int_of_string gc)) pen_empty true in
        (* printn stops at a NUL; an invalid first code point prints nothing *)
        let rec upto0 = function [] -> [] | c :: r -> if iz c = 0 then [] else c :: upto0 r in
        let txt = upto0 (parse_text t) in
        let r = if text_valid txt then t_run t0 [TPrint txt] else Ok t0 in
        (match r with
         | Ok t1 -> [Printf.sprintf "P{%d.%d}{%s}" (iz t1.t_line) (iz t1.t_col) (pr_grid t1.tg)]
         | Fault -> ["P{TERMFAULT}"]
         | NoFuel -> ["P{NOFUEL}"])
      | _ -> failwith "ext");
  ext_oracle := (fun sts cur kw args obs ->
      match obs with
      | [] -> (false, [])
      | tok :: rest ->
        if String.length tok >= 5 && String.sub tok 0 5 = "CRASH" then (false, []) else
        let ok =
          try
            match kw, args with
            | ("fl" | "flm"), [tl; tc; gl; gc; p] ->
              (match braces tok with
               | [log; grid] when tok.[0] = 'F' ->
                 let t0 = t_init (zi (int_of_string tl)) (zi (int_of_string tc)) (zi (int_of_string gl))
                     (zi (int_of_string gc)) (pen_arg p) (kw = "fl") in
                 let ops = if log = "" then [] else List.map parse_termop (String.split_on_char ',' log) in
                 flush_checkb sts.(cur) t0 ops (parse_tgrid grid)
               | _ -> false)
            | "flx", [_; _] ->
              (match braces tok with
               | [payload] when tok.[0] = 'X' -> payload_checkb sts.(cur) (parse_text payload)
               | _ -> false)
            | "lct", [] ->
              (match braces tok with
               | [t] when tok.[0] = 'L' -> table_okb (parse_text t)
               | _ -> false)
            | "tp", [tl; tc; _; _; _] ->
              (* the terminal returned, with a grid of the right shape *)
              (match braces tok with
               | [_; grid] when tok.[0] = 'P' ->
                 let g = parse_tgrid grid in
                 List.length g = int_of_string tl && List.for_all (fun r -> List.length r = int_of_string tc) g
               | _ -> false)
            | _ -> false
          with Failure _ -> false in
        if kw <> "lct" && kw <> "tp" then sts.(cur) <- a_reset sts.(cur);
        (ok, rest));
  main ()
