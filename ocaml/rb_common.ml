(* rb_common.ml -- shared part of the drivers for C03, C04 and C13 (render buffer).

   Case line (blank-separated tokens):   <lines> <cols> <op> <args> <op> <args> ...
     tr dl dc | cl t l h w | mk t l h w | pen P | go l c | ug | sv | sp | rs | rst
     ska l c n | sk n | skt c | skr t l h w | txa l c T | tx T
     era l c n | er n | ert c | err t l h w | clr | cha l c CP | ch CP
     hl l c1 c2 style caps | vl l1 l2 c style caps
     D            dump (aux state, raw cells, inspection-API view)
     nb L C       create buffer 1 (L x C);   buf k   make buffer k current (k = 0, 1)
     + property-specific ops registered through [ext_arity] / [ext_model] / [ext_oracle]
   P = pen: letters f b B u each followed by an integer, "-" = empty pen, "null" = NULL
   T = text: code points in hex joined by ".", "-" = empty;  CP = one code point in hex

   Observation line: one token per op that produces output, in program order:
     r<n>                         return value of a text op
     D{aux}{raw cells}{api view}
   The model prints FAULT / NOFUEL and stops when the model reports one. *)

let zi = z_of_int
let iz = int_of_z

(* ---------- printing ---------- *)
(* pens: <letter><decimal> in the fixed order f b (colours, optionally #rrggbb) B u i r s a k z *)
let pen_letters = [ ('f', FG); ('b', BG); ('B', BOLD); ('u', UNDER); ('i', ITALIC); ('r', REVERSE);
                    ('s', STRIKE); ('a', ALTFONT); ('k', BLINK); ('z', SIZEPOS) ]

let pr_value c = function
  | VBool b -> Printf.sprintf "%c%d" c (if b then 1 else 0)
  | VInt z -> Printf.sprintf "%c%d" c (iz z)
  | VCol (i, None) -> Printf.sprintf "%c%d" c (iz i)
  | VCol (i, Some g) -> Printf.sprintf "%c%d#%02x%02x%02x" c (iz i) (iz g.cr) (iz g.cg) (iz g.cb)

let pr_pen p =
  let s = String.concat "" (List.map (fun (c, a) -> match pget p a with Some v -> pr_value c v | None -> "") pen_letters) in
  if s = "" then "-" else s

let pr_text cps =
  if cps = [] then "-" else String.concat "." (List.map (fun c -> Printf.sprintf "%x" (iz c)) cps)

let pr_rect r = Printf.sprintf "%d,%d,%d,%d" (iz r.top) (iz r.left) (iz r.lines) (iz r.cols)

let pr_frame f =
  if f.f_pen_only then "P" ^ pr_pen f.f_pen
  else Printf.sprintf "F%s;%d,%d;%s;%s"
      (if f.f_vc_set then Printf.sprintf "1:%d,%d" (iz f.f_vc_line) (iz f.f_vc_col) else "0")
      (iz f.f_xl) (iz f.f_xc) (pr_rect f.f_clip) (pr_pen f.f_pen)

let pr_aux a =
  Printf.sprintf "c%s;x%d,%d;k%s;p%s;d%d;s%s"
    (if a.vc_set then Printf.sprintf "1:%d,%d" (iz a.vc_line) (iz a.vc_col) else "0")
    (iz a.xl) (iz a.xc) (pr_rect a.clip) (pr_pen a.cur_pen) (iz a.depth)
    (String.concat "|" (List.map pr_frame a.stack))

let pr_cell c =
  let body = match c.ck with
    | Cont sc -> Printf.sprintf "C%d" (iz sc)
    | Start (CSkip, n) -> Printf.sprintf "S%d" (iz n)
    | Start (CText (p, s, o), n) -> Printf.sprintf "T%d:%s:%s:%d" (iz n) (pr_pen p) (pr_text s) (iz o)
    | Start (CErase p, n) -> Printf.sprintf "E%d:%s" (iz n) (pr_pen p)
    | Start (CLine (p, m), n) -> Printf.sprintf "L%d:%s:%d" (iz n) (pr_pen p) (iz m)
    | Start (CChar (p, cp), n) -> Printf.sprintf "H%d:%s:%x" (iz n) (pr_pen p) (iz cp) in
  if iz c.cmask = -1 then body else body ^ Printf.sprintf "m%d" (iz c.cmask)

let pr_raw s = String.concat "/" (List.map (fun r -> String.concat "," (List.map pr_cell r)) s.cells)

let pr_api v =
  if iz v.v_active = 0 then "0"
  else Printf.sprintf "1:%s:%s:%d" (match v.v_pen with Some p -> pr_pen p | None -> "~")
      (pr_text v.v_text) (iz v.v_linemask)

let api_of_rb s =
  let a = abs_rb s in
  List.map (fun r -> List.map (fun c -> api_of c.ac) r) a.ag

let pr_dump s =
  Printf.sprintf "D{%s}{%s}{%s}" (pr_aux s.aux) (pr_raw s)
    (String.concat "/" (List.map (fun r -> String.concat "," (List.map pr_api r)) (api_of_rb s)))

(* ---------- parsing ---------- *)
let pen_with p a v =
  pen_build (fun a' -> if a' = a then Some v else pget p a')

let parse_pen str =
  if str = "-" then pen_empty else begin
    let n = String.length str in
    let p = ref pen_empty in
    let i = ref 0 in
    while !i < n do
      let c = str.[!i] in
      let j = ref (!i + 1) in
      while !j < n && (str.[!j] = '-' || (str.[!j] >= '0' && str.[!j] <= '9')) do incr j done;
      let v = int_of_string (String.sub str (!i + 1) (!j - !i - 1)) in
      let a = try List.assoc c pen_letters with Not_found -> failwith "pen" in
      let value =
        match attr_type a with
        | TBool -> VBool (v <> 0)
        | TInt -> VInt (zi v)
        | TColour ->
          if !j < n && str.[!j] = '#' then begin
            let h k = zi (int_of_string ("0x" ^ String.sub str (!j + 1 + 2 * k) 2)) in
            let g = { cr = h 0; cg = h 1; cb = h 2 } in
            j := !j + 7;
            VCol (zi v, Some g)
          end else VCol (zi v, None)
        | TNone -> failwith "pen" in
      p := pen_with !p a value;
      i := !j
    done; !p end

let parse_text str =
  if str = "-" then [] else List.map (fun h -> zi (int_of_string ("0x" ^ h))) (String.split_on_char '.' str)

let mkrect t l h w = { top = zi t; left = zi l; lines = zi h; cols = zi w }

type item =
  | Op of rbop
  | Dump
  | NewBuf of int * int
  | Buf of int
  | Ext of string * string list

let ext_arity : (string -> int option) ref = ref (fun _ -> None)

let rec parse_items toks =
  let i = int_of_string in
  match toks with
  | [] -> []
  | "tr" :: a :: b :: r -> Op (OTranslate (zi (i a), zi (i b))) :: parse_items r
  | "cl" :: a :: b :: c :: d :: r -> Op (OClip (mkrect (i a) (i b) (i c) (i d))) :: parse_items r
  | "mk" :: a :: b :: c :: d :: r -> Op (OMask (mkrect (i a) (i b) (i c) (i d))) :: parse_items r
  | "pen" :: p :: r -> Op (OSetPen (if p = "null" then None else Some (parse_pen p))) :: parse_items r
  | "go" :: a :: b :: r -> Op (OGoto (zi (i a), zi (i b))) :: parse_items r
  | "ug" :: r -> Op OUngoto :: parse_items r
  | "sv" :: r -> Op OSave :: parse_items r
  | "sp" :: r -> Op OSavePen :: parse_items r
  | "rs" :: r -> Op ORestore :: parse_items r
  | "rst" :: r -> Op OReset :: parse_items r
  | "ska" :: a :: b :: c :: r -> Op (OSkipAt (zi (i a), zi (i b), zi (i c))) :: parse_items r
  | "sk" :: a :: r -> Op (OSkip (zi (i a))) :: parse_items r
  | "skt" :: a :: r -> Op (OSkipTo (zi (i a))) :: parse_items r
  | "skr" :: a :: b :: c :: d :: r -> Op (OSkipRect (mkrect (i a) (i b) (i c) (i d))) :: parse_items r
  | "txa" :: a :: b :: t :: r -> Op (OTextAt (zi (i a), zi (i b), parse_text t)) :: parse_items r
  | "tx" :: t :: r -> Op (OText (parse_text t)) :: parse_items r
  | "era" :: a :: b :: c :: r -> Op (OEraseAt (zi (i a), zi (i b), zi (i c))) :: parse_items r
  | "er" :: a :: r -> Op (OErase (zi (i a))) :: parse_items r
  | "ert" :: a :: r -> Op (OEraseTo (zi (i a))) :: parse_items r
  | "err" :: a :: b :: c :: d :: r -> Op (OEraseRect (mkrect (i a) (i b) (i c) (i d))) :: parse_items r
  | "clr" :: r -> Op OClear :: parse_items r
  | "cha" :: a :: b :: c :: r -> Op (OCharAt (zi (i a), zi (i b), zi (i ("0x" ^ c)))) :: parse_items r
  | "ch" :: c :: r -> Op (OChar (zi (i ("0x" ^ c)))) :: parse_items r
  | "hl" :: a :: b :: c :: d :: e :: r -> Op (OHLine (zi (i a), zi (i b), zi (i c), zi (i d), zi (i e))) :: parse_items r
  | "vl" :: a :: b :: c :: d :: e :: r -> Op (OVLine (zi (i a), zi (i b), zi (i c), zi (i d), zi (i e))) :: parse_items r
  | "D" :: r -> Dump :: parse_items r
  | "slack" :: _ :: r -> parse_items r      (* harness-only: slack bytes for get_cell_text buffers *)
  | "nb" :: a :: b :: r -> NewBuf (i a, i b) :: parse_items r
  | "buf" :: a :: r -> Buf (i a) :: parse_items r
  | kw :: r ->
    (match !ext_arity kw with
     | Some n ->
       let rec take k l acc = if k = 0 then (List.rev acc, l) else
           match l with x :: t -> take (k - 1) t (x :: acc) | [] -> failwith ("args of " ^ kw) in
       let (args, rest) = take n r [] in
       Ext (kw, args) :: parse_items rest
     | None -> failwith ("op " ^ kw))

let parse_case line =
  match split_ws line with
  | l :: c :: rest -> (int_of_string l, int_of_string c, parse_items rest)
  | _ -> failwith "case"

(* ---------- the model side ---------- *)
exception Stop of string

let unres = function Ok x -> x | Fault -> raise (Stop "FAULT") | NoFuel -> raise (Stop "NOFUEL")

(* extension: (buffers, current index) -> keyword -> args -> output tokens; may update the array *)
let ext_model : (rb array -> int -> string -> string list -> string list) ref =
  ref (fun _ _ kw _ -> failwith ("ext " ^ kw))

let model line =
  let (l, c, items) = parse_case line in
  let bufs = [| rb_new (zi l) (zi c); rb_new (zi 0) (zi 0) |] in
  let cur = ref 0 in
  let out = ref [] in
  let emit s = out := s :: !out in
  (try
     List.iter (function
         | Op o ->
           let (s', vs) = unres (step bufs.(!cur) o) in
           bufs.(!cur) <- s';
           List.iter (fun v -> emit (Printf.sprintf "r%d" (iz v))) vs
         | Dump -> emit (pr_dump bufs.(!cur))
         | NewBuf (l, c) -> bufs.(1) <- rb_new (zi l) (zi c)
         | Buf k -> cur := k
         | Ext (kw, args) -> List.iter emit (!ext_model bufs !cur kw args)) items
   with Stop m -> emit m);
  String.concat " " (List.rev !out)

(* ---------- the oracle side: parse the implementation's dump ---------- *)
let split_on_string sep s =
  let n = String.length sep in
  let rec go i acc start =
    if i + n > String.length s then List.rev (String.sub s start (String.length s - start) :: acc)
    else if String.sub s i n = sep then go (i + n) (String.sub s start (i - start) :: acc) (i + n)
    else go (i + 1) acc start in
  go 0 [] 0

let ints_of s = List.map int_of_string (String.split_on_char ',' s)

let parse_rect s = match ints_of s with [t; l; h; w] -> mkrect t l h w | _ -> failwith "rect"

let parse_cur s =   (* "0" or "1:l,c" *)
  if s = "0" then (false, 0, 0)
  else match ints_of (String.sub s 2 (String.length s - 2)) with [l; c] -> (true, l, c) | _ -> failwith "cur"

let parse_frame s =
  if s.[0] = 'P' then
    { f_vc_set = false; f_vc_line = zi 0; f_vc_col = zi 0; f_xl = zi 0; f_xc = zi 0;
      f_clip = mkrect 0 0 0 0; f_pen = parse_pen (String.sub s 1 (String.length s - 1)); f_pen_only = true }
  else match String.split_on_char ';' (String.sub s 1 (String.length s - 1)) with
    | [cur; xl; clip; pen] ->
      let (b, l, c) = parse_cur cur in
      (match ints_of xl with
       | [a; d] -> { f_vc_set = b; f_vc_line = zi l; f_vc_col = zi c; f_xl = zi a; f_xc = zi d;
                     f_clip = parse_rect clip; f_pen = parse_pen pen; f_pen_only = false }
       | _ -> failwith "frame")
    | _ -> failwith "frame"

let parse_aux s =
  match String.split_on_char ';' s with
  | cur :: xl :: clip :: pen :: d :: rest ->
    (* the stack field may itself contain ';' -- rejoin *)
    let st = String.concat ";" rest in
    let strip p x = if String.length x > 0 && x.[0] = p then String.sub x 1 (String.length x - 1) else failwith "aux" in
    let (b, l, c) = parse_cur (strip 'c' cur) in
    let (a, e) = match ints_of (strip 'x' xl) with [a; e] -> (a, e) | _ -> failwith "aux" in
    let st = strip 's' st in
    { vc_set = b; vc_line = zi l; vc_col = zi c; xl = zi a; xc = zi e; clip = parse_rect (strip 'k' clip);
      cur_pen = parse_pen (strip 'p' pen); depth = zi (int_of_string (strip 'd' d));
      stack = if st = "" then [] else List.map parse_frame (String.split_on_char '|' st) }
  | _ -> failwith "aux"

let parse_cell s =
  (* optional m<depth> suffix *)
  let (body, mask) =
    match String.rindex_opt s 'm' with
    | Some i -> (String.sub s 0 i, int_of_string (String.sub s (i + 1) (String.length s - i - 1)))
    | None -> (s, -1) in
  let rest = String.sub body 1 (String.length body - 1) in
  let f = String.split_on_char ':' rest in
  let k = match body.[0], f with
    | 'C', [sc] -> Cont (zi (int_of_string sc))
    | 'S', [n] -> Start (CSkip, zi (int_of_string n))
    | 'T', [n; p; t; o] -> Start (CText (parse_pen p, parse_text t, zi (int_of_string o)), zi (int_of_string n))
    | 'E', [n; p] -> Start (CErase (parse_pen p), zi (int_of_string n))
    | 'L', [n; p; m] -> Start (CLine (parse_pen p, zi (int_of_string m)), zi (int_of_string n))
    | 'H', [n; p; c] -> Start (CChar (parse_pen p, zi (int_of_string ("0x" ^ c))), zi (int_of_string n))
    | _ -> failwith ("cell " ^ s) in
  { ck = k; cmask = zi mask }

let parse_raw s =
  if s = "" then [] else
    List.map (fun r -> if r = "" then [] else List.map parse_cell (String.split_on_char ',' r)) (String.split_on_char '/' s)

let parse_api_cell s =
  if s = "0" then { v_active = zi 0; v_text = []; v_pen = None; v_linemask = zi 0 }
  else match String.split_on_char ':' s with
    | [a; p; t; m] -> { v_active = zi (int_of_string a); v_text = parse_text t;
                        v_pen = (if p = "~" then None else Some (parse_pen p)); v_linemask = zi (int_of_string m) }
    | _ -> failwith "api"

let parse_api s =
  if s = "" then [] else
    List.map (fun r -> if r = "" then [] else List.map parse_api_cell (String.split_on_char ',' r)) (String.split_on_char '/' s)

(* "D{aux}{raw}{api}" -> (rb, api) for a buffer of the given size *)
let parse_dump lines cols tok =
  let n = String.length tok in
  if n < 4 || tok.[0] <> 'D' || tok.[1] <> '{' || tok.[n - 1] <> '}' then failwith "dump";
  match split_on_string "}{" (String.sub tok 2 (n - 3)) with
  | [aux; raw; api] ->
    (* one line without columns prints like no line at all: the size is known from the case *)
    let rows f s = if s = "" then List.init (max 0 (iz lines)) (fun _ -> []) else f s in
    ({ rb_lines = lines; rb_cols = cols; cells = rows parse_raw raw; aux = parse_aux aux }, rows parse_api api)
  | _ -> failwith "dump"

(* the check applied to a dump; C13 replaces it by the display-equality variant *)
let dump_check : (ast -> rb -> apiview list list -> bool) ref = ref dump_checkb
let eq_check : (ast -> ast -> bool) ref = ref ast_eqb

let ext_oracle : (ast array -> int -> string -> string list -> string list -> (bool * string list)) ref =
  ref (fun _ _ kw _ _ -> failwith ("ext " ^ kw))
(* ext_oracle states cur kw args remaining_obs_tokens -> (ok, remaining tokens after consumption) *)

let oracle line =
  match String.index_opt line '|' with
  | None -> "BAD format"
  | Some bar ->
    let c = String.sub line 0 bar and o = String.sub line (bar + 1) (String.length line - bar - 1) in
    let (l, cc, items) = parse_case c in
    let obs = ref (split_ws o) in
    let next () = match !obs with x :: r -> obs := r; x | [] -> raise (Stop "missing-output") in
    let sts = [| a_new (zi l) (zi cc); a_new (zi 0) (zi 0) |] in
    let cur = ref 0 in
    (try
       List.iteri (fun idx it ->
           match it with
           | Op op ->
             let (s', vs) = astep sts.(!cur) op in
             sts.(!cur) <- s';
             List.iter (fun v ->
                 let t = next () in
                 if t <> Printf.sprintf "r%d" (iz v) then
                   raise (Stop (Printf.sprintf "op#%d returned %s, specification says r%d" idx t (iz v)))) vs
           | Dump ->
             let t = next () in
             if String.length t >= 5 && String.sub t 0 5 = "CRASH" then raise (Stop t);
             let (impl, api) = parse_dump sts.(!cur).a_lines sts.(!cur).a_cols t in
             if not (!dump_check sts.(!cur) impl api) then begin
               let why =
                 if not (wf_rbb impl) then "span structure ill-formed"
                 else if not (!eq_check (abs_rb impl) sts.(!cur)) then
                   (if not (aux_eqb impl.aux sts.(!cur).a_aux) then "auxiliary state differs from specification"
                    else "cell contents differ from specification")
                 else "inspection API view differs from specification" in
               raise (Stop (Printf.sprintf "dump after op#%d: %s" idx why)) end
           | NewBuf (l, c) -> sts.(1) <- a_new (zi l) (zi c)
           | Buf k -> cur := k
           | Ext (kw, args) ->
             let (ok, rest) = !ext_oracle sts !cur kw args !obs in
             obs := rest;
             if not ok then raise (Stop (Printf.sprintf "op#%d %s violates the specification" idx kw))) items;
       (match !obs with
        | [] -> "OK"
        | x :: _ -> "BAD extra output " ^ (if String.length x > 40 then String.sub x 0 40 else x))
     with Stop m -> "BAD " ^ m
        | Failure m -> "BAD unparsable observation (" ^ m ^ ")")

let main () =
  let f = if Array.length Sys.argv > 1 && Sys.argv.(1) = "oracle" then oracle else model in
  iter_lines (fun l -> print_endline (try f l with Failure m -> "ERR " ^ m | Stop m -> "ERR " ^ m))
