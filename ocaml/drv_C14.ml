(* driver for C14: key and mouse routing.  Model mode runs the routing model (with scripted
   mutations inside handlers); the oracle recomputes, from the tree the implementation reports
   before each event, the order the property demands (key_order / mouse_order, offers stop at
   the first claimer, drag events synthesised by the bracket rules) and compares it with the
   delivery log.  When a handler closed windows, the deliveries to the windows that were not
   closed must be those of the unmutated order. *)
let claims_fn (c : case) : z -> z = fun id -> zi (try List.assoc (iz id) c.claims with Not_found -> 0)

let pr_ievs (evs : iev list) : string =
  if evs = [] then "-" else
    String.concat ";" (List.map (function
        | IKey w -> Printf.sprintf "%d.K" (iz w)
        | IMouse (w, ty, b, l, c) -> Printf.sprintf "%d.%d.%d.%d.%d" (iz w) (iz ty) (iz b) (iz l) (iz c)) evs)

let parse_ievs (s : string) : iev list =
  if s = "-" then [] else
    List.map (fun e ->
        match String.split_on_char '.' e with
        | [w; "K"] -> IKey (zi (int_of_string w))
        | [w; ty; b; l; c] -> IMouse (zi (int_of_string w), zi (int_of_string ty), zi (int_of_string b), zi (int_of_string l), zi (int_of_string c))
        | _ -> failwith "iev") (String.split_on_char ';' s)

(* persistent routing state of the model across events of one case *)
let freed : z list ref = ref []
let armed : (z * ((z * z) * z)) list ref = ref []
let faulted = ref false
let pending : z list ref = ref []
let armed_case : case option ref = ref None

let istate_of (c : case) (m : mstate) : istate =
  (match !armed_case with
   | Some c' when c' == c -> ()
   | _ -> armed_case := Some c; freed := []; faulted := false; pending := [];
     armed := List.rev_map (fun (id, (cl, a, t)) -> (zi id, ((zi cl, zi a), zi t))) c.mus);
  { i_root = m.m_root; i_freed = !freed; i_holds = []; i_pending = !pending; i_armed = !armed; i_log = []; i_fault = false }

let finish (m : mstate) (s : istate) : mstate * string =
  freed := s.i_freed; armed := s.i_armed; pending := s.i_pending;
  if s.i_fault then faulted := true;
  ({ m with m_root = s.i_root }, pr_ievs (List.rev s.i_log))

let () =
  key_hook := (fun c m -> finish m (term_key cfg (claims_fn c) (istate_of c m)));
  mouse_hook := (fun c (t, b, l, cc) m -> finish m (term_mouse cfg (claims_fn c) (istate_of c m) (zi t) (zi b) (zi l) (zi cc)))

let model_c14 (line : string) : string =
  armed_case := None;
  let r = model line in
  if !faulted then "CRASH model: use of a destroyed window" else r

let rec subtree_ids (t : wtree) : z list = let Node (i, ch) = t in i.w_id :: List.concat_map subtree_ids ch

let oracle_c14 (line : string) : string =
  let (c, o) = split_case_obs line in
  let cs = parse_case c in
  if String.length o >= 5 && String.sub o 0 5 = "CRASH" then "BAD the implementation crashed" else
  let recs = parse_obs o in
  let claims = claims_fn cs in
  let ds = ref drag_init in
  let raws = ref (List.filter_map (function Mouse (t, b, l, cc) -> Some (t, b, l, cc) | _ -> None) cs.items) in
  let bad = ref None in
  let fired : int list ref = ref [] in
  let compare_logs cls k t expected observed =
    if cs.mus = [] then begin
      if not (ievs_eqb expected observed) then
        bad := Some (Printf.sprintf "record %d: delivered %s, the property's order gives %s" k (pr_ievs observed) (pr_ievs expected))
    end else begin
      let closed = List.concat_map (fun (_, (_, _, tgt)) ->
          match t_find (zi tgt) t with Some sub -> subtree_ids sub | None -> []) cs.mus in
      (* a window closing ITSELF: the rest in the unmutated order; closing another window: the
         rest as a multiset (the tree the remaining routing sees is a different one) *)
      let self_only = List.for_all (fun (id, (_, _, tgt)) -> id = tgt) cs.mus in
      (* a closed window that claims events: in the unmutated order it would have ended the offers, so
         what the windows after it get cannot be read off that order (the model correspondence covers it) *)
      (* nothing more to a closed subtree that the closing window is not part of *)
      List.iter (fun (w, (mcls, _, tgt)) ->
          let got = List.exists (fun e -> iz (iev_win e) = w) observed in
          if mcls <> cls || List.mem w !fired || not got then () else begin
          fired := w :: !fired;
          match t_find (zi tgt) t with
          | Some sub ->
            let cl = subtree_ids sub in
            if not (List.exists (fun x -> iz x = w) cl) && not (c14_closed_silent_checkb (zi w) cl observed) then
              bad := Some (Printf.sprintf "record %d: a window closed by window %d's handler was still given the event: %s" k w (pr_ievs observed))
          | None -> () end) cs.mus;
      if !bad <> None then () else
      let closed_claims = List.exists (fun w -> iz (claims w) <> 0) closed in
      if closed_claims then () else
      if not (if self_only then c14_rest_checkb closed expected observed
              else c14_rest_set_checkb closed expected observed) then
        bad := Some (Printf.sprintf "record %d: delivery to the windows that were not closed is derailed: %s vs %s" k (pr_ievs observed) (pr_ievs expected))
    end in
  List.iteri (fun k r ->
      if !bad = None then
        if r.kind = "K" then begin
          let t = parse_tree (field r "T") in
          compare_logs 0 k t (key_spec claims t) (parse_ievs (field r "L"))
        end else if r.kind = "SH" then begin
          (* the focus chain keys are routed along: show re-links only a parent without a focused child *)
          if not (c15_show_checkb (zi (int_of_string (field r "W"))) (parse_tree (field r "U")) (parse_tree (field r "T"))) then
            bad := Some (Printf.sprintf "record %d: show changed the focus chain: the shown window is offered keys before the window that took the focus meanwhile (or is left off the chain)" k)
        end else if r.kind = "HI" then begin
          if not (c15_hide_checkb (zi (int_of_string (field r "W"))) (parse_tree (field r "U")) (parse_tree (field r "T"))) then
            bad := Some (Printf.sprintf "record %d: hide left a hidden window on the focus chain keys are routed along (or changed another link)" k)
        end else if r.kind = "F" then begin
          (* a flush (which applies the queued restacks) changes no focus link: keys keep going along the chain first *)
          if not (c15_links_kept_checkb (parse_tree (field r "U")) (parse_tree (field r "T"))) then
            bad := Some (Printf.sprintf "record %d: the flush changed a focus link or a focused flag: keys no longer go along the focus chain first" k)
        end else if r.kind = "MS" then begin
          let t = parse_tree (field r "T") in
          match !raws with
          | [] -> bad := Some "more MS records than mouse events"
          | (ty, b, l, cc) :: rest ->
            raws := rest;
            let ty = if ty >= 1 && ty <= 4 then ty else 1 in
            let (expected, ds') = mouse_spec claims t !ds (zi ty) (zi b) (zi l) (zi cc) in
            ds := ds';
            compare_logs 1 k t expected (parse_ievs (field r "L"))
        end) recs;
  match !bad with None -> "OK" | Some m -> "BAD " ^ m

let () =
  let f = if Array.length Sys.argv > 1 && Sys.argv.(1) = "oracle" then oracle_c14 else model_c14 in
  iter_lines (fun l -> print_endline (try f l with Failure m -> "ERR " ^ m | Not_found -> "ERR notfound"
                                                | Invalid_argument m -> "ERR " ^ m))
