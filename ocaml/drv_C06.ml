(* driver for C06: case line "<op> ta la ha wa tb lb hb wb", op in I S C A D.
   model mode prints the model's observation; oracle mode reads "<case> | <obs>" and
   prints OK or BAD according to the extracted specification checker. *)
let rect_of = function
  | [t; l; h; w] -> { top = z_of_int t; left = z_of_int l; lines = z_of_int h; cols = z_of_int w }
  | _ -> failwith "rect"
let pr_rect b r =
  Buffer.add_string b (Printf.sprintf " %d %d %d %d" (int_of_z r.top) (int_of_z r.left)
                         (int_of_z r.lines) (int_of_z r.cols))
let pr_list rs =
  let b = Buffer.create 64 in
  Buffer.add_string b (string_of_int (List.length rs)); List.iter (pr_rect b) rs; Buffer.contents b
let rec rects_of = function
  | t :: l :: h :: w :: rest -> rect_of [t; l; h; w] :: rects_of rest
  | [] -> [] | _ -> failwith "rects"
let parse_case toks =
  match toks with
  | op :: nums ->
    (match List.map int_of_string nums with
     | [ta; la; ha; wa; tb; lb; hb; wb] -> (op, rect_of [ta; la; ha; wa], rect_of [tb; lb; hb; wb])
     | _ -> failwith "case")
  | _ -> failwith "case"
let model line =
  let (op, a, b) = parse_case (split_ws line) in
  match op with
  | "I" | "J" | "K" -> (match r_intersect a b with None -> "0" | Some r -> pr_list [r])
  | "S" -> if r_intersects a b then "1" else "0"
  | "C" -> if r_contains a b then "1" else "0"
  | "A" -> pr_list (r_add a b)
  | "D" -> pr_list (r_subtract a b)
  | _ -> failwith "op"
let oracle line =
  match String.split_on_char '|' line with
  | [c; o] ->
    let (op, a, b) = parse_case (split_ws c) in
    let obs = List.map int_of_string (split_ws o) in
    let ok = match op, obs with
      | ("I" | "J" | "K"), [0] -> intersect_checkb a b None
      | ("I" | "J" | "K"), [1; t; l; h; w] -> intersect_checkb a b (Some (rect_of [t; l; h; w]))
      | "S", [v] -> intersects_checkb a b (v <> 0)
      | "C", [v] -> contains_checkb a b (v <> 0)
      | "A", n :: rest -> List.length rest = 4 * n && add_checkb a b (rects_of rest)
      | "D", n :: rest -> List.length rest = 4 * n && subtract_checkb a b (rects_of rest)
      | _ -> false in
    if ok then "OK" else "BAD"
  | _ -> "BAD"
let () =
  let f = if Array.length Sys.argv > 1 && Sys.argv.(1) = "oracle" then oracle else model in
  iter_lines (fun l -> print_endline (try f l with Failure m -> "ERR " ^ m))
