(* driver for C05.  Case line = blank-separated command tokens:
     A t l h w | S t l h w | T down right | C      operations (add, subtract, translate, clear)
     Q t l h w                                      one contains/intersects query
     G lo hi                                        queries for every rectangle with edges in lo..hi
     FA lo hi | FS lo hi | FB lo hi                 fan-out: each add / subtract / both of every such
                                                    rectangle, tried on a copy of the current state
   Observation = one segment per command, joined by " ; ":
     state "n t l h w ..." | "q c i" | "g <c i bits>" | "f <state> , <state> ..." | FUEL (model only).
   `drv model` prints the model's observation (repaired code; VERIF_C05_STALE=1 selects the
   model of the pinned code); `drv oracle` reads "<case> | <obs>" and evaluates the
   extracted specification checker [case_checkb] on it. *)
let rect_of t l h w = { top = z_of_int t; left = z_of_int l; lines = z_of_int h; cols = z_of_int w }
let grid lo hi =
  let acc = ref [] in
  for t = lo to hi - 1 do for b = t + 1 to hi do
    for l = lo to hi - 1 do for r = l + 1 to hi do
      acc := rect_of t l (b - t) (r - l) :: !acc done done done done;
  List.rev !acc
let rec parse_cmds = function
  | [] -> []
  | "A" :: t :: l :: h :: w :: rest -> COp (OAdd (rect_of (int_of_string t) (int_of_string l) (int_of_string h) (int_of_string w))) :: parse_cmds rest
  | "S" :: t :: l :: h :: w :: rest -> COp (OSub (rect_of (int_of_string t) (int_of_string l) (int_of_string h) (int_of_string w))) :: parse_cmds rest
  | "T" :: d :: r :: rest -> COp (OTranslate (z_of_int (int_of_string d), z_of_int (int_of_string r))) :: parse_cmds rest
  | "C" :: rest -> COp OClear :: parse_cmds rest
  | "Q" :: t :: l :: h :: w :: rest -> CQuery [rect_of (int_of_string t) (int_of_string l) (int_of_string h) (int_of_string w)] :: parse_cmds rest
  | "G" :: lo :: hi :: rest -> CQuery (grid (int_of_string lo) (int_of_string hi)) :: parse_cmds rest
  | f :: lo :: hi :: rest when f = "FA" || f = "FS" || f = "FB" ->
    let g = grid (int_of_string lo) (int_of_string hi) in
    let adds = List.map (fun r -> OAdd r) g and subs = List.map (fun r -> OSub r) g in
    CFan (if f = "FA" then adds else if f = "FS" then subs else adds @ subs) :: parse_cmds rest
  | _ -> failwith "cmd"
let pr_state b rs =
  Buffer.add_string b (string_of_int (List.length rs));
  List.iter (fun r -> Buffer.add_string b (Printf.sprintf " %d %d %d %d" (int_of_z r.top) (int_of_z r.left)
                                             (int_of_z r.lines) (int_of_z r.cols))) rs
let pr_obs cmds obs =
  let b = Buffer.create 256 in
  let rec go first cmds obs = match obs with
    | [] -> ()
    | o :: rest ->
      if not first then Buffer.add_string b " ; ";
      (match o, cmds with
       | ObsState s, _ -> pr_state b s
       | ObsQuery [(c, i)], CQuery [_] :: _ -> Buffer.add_string b (Printf.sprintf "q %d %d" (if c then 1 else 0) (if i then 1 else 0))
       | ObsQuery ans, _ ->
         Buffer.add_string b "g ";
         List.iter (fun (c, i) -> Buffer.add_char b (if c then '1' else '0'); Buffer.add_char b (if i then '1' else '0')) ans
       | ObsFan ss, _ ->
         Buffer.add_string b "f";
         List.iteri (fun k so -> Buffer.add_string b (if k = 0 then " " else " , ");
                      match so with Some s -> pr_state b s | None -> Buffer.add_string b "FUEL") ss
       | ObsFuel, _ -> Buffer.add_string b "FUEL");
      go false (match cmds with [] -> [] | _ :: t -> t) rest in
  go true cmds obs; Buffer.contents b
let rec nat_of_int n = if n <= 0 then O else S (nat_of_int (n - 1))
let fuel = nat_of_int 4000
let stale = (try Sys.getenv "VERIF_C05_STALE" = "1" with Not_found -> false)
let model line =
  let cmds = parse_cmds (split_ws line) in
  pr_obs cmds (model_run fuel stale [] cmds)
let rec rects_of = function
  | t :: l :: h :: w :: rest -> rect_of t l h w :: rects_of rest
  | [] -> [] | _ -> failwith "rects"
let state_of toks = match List.map int_of_string toks with
  | n :: rest when List.length rest = 4 * n -> rects_of rest
  | _ -> failwith "state"
let rec split_on sep = function           (* split a token list at the token [sep] *)
  | [] -> [[]]
  | x :: rest -> let r = split_on sep rest in
    if x = sep then [] :: r else (match r with h :: t -> (x :: h) :: t | [] -> [[x]])
let parse_obs seg =
  match split_ws seg with
  | ["q"; c; i] -> ObsQuery [(c = "1", i = "1")]
  | ["g"; bits] ->
    let n = String.length bits / 2 in
    ObsQuery (List.init n (fun k -> (bits.[2 * k] = '1', bits.[2 * k + 1] = '1')))
  | "f" :: rest -> ObsFan (List.map (fun t -> Some (state_of t)) (split_on "," rest))
  | toks -> ObsState (state_of toks)
let oracle line =
  match String.split_on_char '|' line with
  | [c; o] ->
    let cmds = parse_cmds (split_ws c) in
    let obs = List.map parse_obs (String.split_on_char ';' o) in
    if case_checkb cmds obs then "OK" else "BAD"
  | _ -> "BAD"
let () =
  let f = if Array.length Sys.argv > 1 && Sys.argv.(1) = "oracle" then oracle else model in
  iter_lines (fun l -> print_endline (try f l with Failure m -> "ERR " ^ m | Invalid_argument m -> "ERR " ^ m | Not_found -> "ERR notfound"))
