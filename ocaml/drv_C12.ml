(* driver for C12; see harness/C12.c for the case and observation formats.
   modes: model | oracle (strict) | oracle-nokp (everything but the keypad mode / control) *)
let ctl_of_char = function
  | 'A' -> CtlAltscreen | 'V' -> CtlCursorvis | 'B' -> CtlCursorblink | 'M' -> CtlMouse
  | 'H' -> CtlCursorshape | 'K' -> CtlKeypadApp | _ -> failwith "ctl"
(* U only: the application holds / releases its own references (root window, terminal) *)
type xop = Op of mop | Hold | Release | Tick
let parse_mop s =
  match split_on ':' s with
  | [k; v] when String.length k = 1 && String.contains "AVBMHK" k.[0] -> OSet (ctl_of_char k.[0], zi v)
  | ["g"; x] -> OGet (ctl_of_char x.[0])
  | ["s"; p] -> OSetpen (parse_pen p)
  | ["c"; p] -> OChpen (parse_pen p)
  | ["Z"] -> OPause | ["R"] -> OResume | ["T"] -> OTeardown | ["D"] -> ODestroy
  | _ -> failwith "op"
let parse_op s = match s with "w" | "h" -> Hold | "x" -> Release | "t" -> Tick | _ -> Op (parse_mop s)
(* W: the replies of the terminal in the loop that are read at tick number k, as model operations *)
let reports_at (delays : int array) k =
  let r = [| OReport (z_of_int 69, z_of_int 1); OReport (z_of_int 25, z_of_int 1);
             OReport (z_of_int 12, z_of_int 2); ODecscusr (z_of_int 2) |] in
  List.filter_map (fun i -> if delays.(i) = k then Some r.(i) else None) [0; 1; 2; 3]
(* the operations the harness really runs, as model operations (None = no model step, must be silent).
   D of a toplevel is tickit_destroy = teardown + unref; it ends the case unless something is held;
   releasing what is held afterwards destroys the terminal (nothing left to undo) *)
let effective layer delays (ops : xop list) : (mop list option) list =
  let rec go held dead tick = function
    | [] -> []
    | Hold :: r -> None :: go true dead tick r
    | Release :: r -> if dead then [Some [ODestroy]] else None :: go false dead tick r
    | Tick :: r ->
      (match reports_at delays tick with [] -> None | l -> Some l) :: go held dead (tick + 1) r
    | Op ODestroy :: r ->
      if layer <> 'T' then
        (if dead then [] else Some [OTeardown; ODestroy] :: (if held then go held true tick r else []))
      else [Some [ODestroy]]
    | Op o :: r -> Some [o] :: go held dead tick r in
  go false false 1 ops
let probed decscusr rpm12 colon rgb =
  let d = xt_on_modereport xdrv_new (z_of_int 69) (z_of_int 1) in
  let d = xt_on_modereport d (z_of_int 25) (z_of_int 1) in
  let d = if rpm12 <> 0 then xt_on_modereport d (z_of_int 12) (z_of_int rpm12) else d in
  let d = if decscusr >= 0 then xt_on_decscusr d (z_of_int decscusr) else d in
  let d = xt_on_sgrreport d colon false in
  let ((d, _), _) = xt_setctl d CtlCapRgb8 (z_of_int (if rgb then 1 else 0)) in
  d
type cse = { layer : char; alt : bool; decscusr : int; rpm12 : int; colon : bool; rgb : bool; delays : int array; ops : xop list }
let parse_case toks =
  match toks with
  | "T" :: ds :: r12 :: colon :: rgb :: ops ->
    { layer = 'T'; alt = false; decscusr = int_of_string ds; rpm12 = int_of_string r12; colon = colon <> "0";
      rgb = rgb <> "0"; delays = [| -1; -1; -1; -1 |]; ops = List.map parse_op ops }
  | "W" :: alt :: colon :: rgb :: d0 :: d1 :: d2 :: d3 :: ops ->
    { layer = 'W'; alt = alt <> "0"; decscusr = 2; rpm12 = 2; colon = colon <> "0"; rgb = rgb <> "0";
      delays = Array.map int_of_string [| d0; d1; d2; d3 |]; ops = List.map parse_op ops }
  | "U" :: alt :: colon :: rgb :: ops ->
    { layer = 'U'; alt = alt <> "0"; decscusr = 2; rpm12 = 2; colon = colon <> "0"; rgb = rgb <> "0";
      delays = [| -1; -1; -1; -1 |]; ops = List.map parse_op ops }
  | _ -> failwith "case"
(* W: nothing is probed up front except separator / RGB; the first tick reads the replies that are there
   (await_started) and then runs setupterm *)
let start_drv c =
  if c.layer = 'W' then
    (let d = xt_on_sgrreport xdrv_new c.colon false in
     let ((d, _), _) = xt_setctl d CtlCapRgb8 (z_of_int (if c.rgb then 1 else 0)) in d)
  else probed c.decscusr c.rpm12 c.colon c.rgb
let first_steps c =
  match c.layer with
  | 'U' -> [Some [OSetup c.alt]]
  | 'W' -> [Some (reports_at c.delays 0 @ [OSetup c.alt])]
  | _ -> []
let first_op = function Some (o :: _) -> Some o | _ -> None
(* ---- layer B: construction orders and output buffers (TermBufDefs / TermBufSpec) *)
let parse_bop s =
  match split_on ':' s with
  | ["b"; n] -> BBuffer (zi n)
  | ["o"] -> BAttach
  | ["F"] -> BFlush
  | _ -> BOp (parse_mop s)
(* the calls one harness op stands for: the first attach is followed by the terminal's replies *)
let b_steps decscusr rpm12 (ops : bop list) : bop list list =
  let replies =
    [BOp (OReport (z_of_int 69, z_of_int 1)); BOp (OReport (z_of_int 25, z_of_int 1))]
    @ (if rpm12 <> 0 then [BOp (OReport (z_of_int 12, z_of_int rpm12))] else [])
    @ (if decscusr >= 0 then [BOp (ODecscusr (z_of_int decscusr))] else []) in
  let rec go attached = function
    | [] -> []
    | BAttach :: r -> (if attached then [BAttach] else BAttach :: replies) :: go true r
    | BOp ODestroy :: _ -> [[BOp ODestroy]]
    | o :: r -> [o] :: go attached r in
  go false ops
let b_drv colon rgb =
  let d = xt_on_sgrreport xdrv_new colon false in
  let ((d, _), _) = xt_setctl d CtlCapRgb8 (z_of_int (if rgb then 1 else 0)) in d
let parse_b toks =
  match toks with
  | "B" :: ds :: r12 :: colon :: rgb :: _fd :: ops ->
    (int_of_string ds, int_of_string r12, colon <> "0", rgb <> "0", List.map parse_bop ops)
  | _ -> failwith "case B"
let model_b line =
  let (ds, r12, colon, rgb, ops) = parse_b (split_ws line) in
  let b = Buffer.create 256 in
  Buffer.add_string b "I:-";
  let b0 = bterm_new (b_drv colon rgb) (z_of_int 25) (z_of_int 80) in
  let _ = List.fold_left (fun st step ->
      match st with
      | None -> None
      | Some bt ->
        let (bt', bytes, value, ok) = List.fold_left (fun (bt, acc, value, ok) o ->
            if not ok then (bt, acc, value, ok) else
              match bstep bt o with
              | None -> (bt, acc, value, false)
              | Some ((bt', d), v) -> (bt', acc @ d, (match v with Some _ -> v | None -> value), true)) (bt, [], None, true) step in
        if not ok then (Buffer.add_string b " FAULT"; None) else begin
          (match List.hd step with
           | BOp (OSet _) -> Buffer.add_string b (Printf.sprintf " %d:%s" (match value with Some v -> int_of_z v | None -> 0) (hex_of_bytes bytes))
           | BOp (OGet _) -> Buffer.add_string b (match value with Some v -> Printf.sprintf " =%d" (int_of_z v) | None -> " =fail")
           | _ -> Buffer.add_string b (" " ^ hex_of_bytes bytes));
          Some bt'
        end) (Some b0) (b_steps ds r12 ops) in
  Buffer.contents b
let oracle_b kp cs o =
  let (ds, r12, colon, rgb, ops) = parse_b (split_ws cs) in
  match split_ws o with
  | init :: obs when init = "I:-" ->
    let v0 = vt_init (z_of_int 25) (z_of_int 80) in
    let v0 = set_md v0 (md_set_blink v0.v_md (r12 = 1)) in
    let v0 = if ds >= 0 then set_md v0 (md_set_shape v0.v_md (z_of_int ds)) else v0 in
    let steps = b_steps ds r12 ops in
    if List.length obs <> List.length steps then "BAD obs count" else begin
      let items = List.concat (List.map2 (fun step ob ->
          match step with
          | BOp (OSet _) :: _ -> (match split_on ':' ob with [r; h] -> [((List.hd step, bytes_of_hex h), Some (zi r))] | _ -> failwith "obs set")
          | BOp (OGet _) :: _ -> if String.length ob > 1 && ob.[0] = '=' then
              [((List.hd step, []), (try Some (zi (String.sub ob 1 (String.length ob - 1))) with _ -> None))] else failwith "obs get"
          | first :: rest -> ((first, bytes_of_hex ob), None) :: List.map (fun o -> ((o, []), None)) rest
          | [] -> failwith "step") steps obs) in
      match oracle_buf kp colon rgb (ms_of_vt v0) O (bo_init v0) [] items with
      | MOk n -> Printf.sprintf "OK %d" (int_of_nat n)
      | MOutOfRange i -> Printf.sprintf "OK range@%d" (int_of_nat i)
      | MBadAt (i, w) -> Printf.sprintf "BAD @%d why=%d" (int_of_nat i) (int_of_nat w)
    end
  | _ -> "BAD obs"
let model line =
  if String.length line > 0 && line.[0] = 'B' then model_b line else
  let c = parse_case (split_ws line) in
  let b = Buffer.create 256 in
  Buffer.add_string b ("I:" ^ hex_of_bytes (render xt_start));
  let t0 = { t_drv = start_drv c; t_started = true; t_pen = empty_pen;
             t_lines = z_of_int 25; t_cols = z_of_int 80 } in
  let steps = first_steps c @ effective c.layer c.delays c.ops in
  let _ = List.fold_left (fun st step ->
      match st, step with
      | None, _ -> None
      | Some t, None -> Buffer.add_string b " -"; Some t
      | Some t, Some ms ->
        let (t', toks, value, ok) = List.fold_left (fun (t, acc, value, ok) o ->
            if not ok then (t, acc, value, ok) else
              match mode_step t o with
              | None -> (t, acc, value, false)
              | Some ((t', ts), v) -> (t', acc @ ts, v, true)) (t, [], None, true) ms in
        if not ok then (Buffer.add_string b " FAULT"; None) else begin
          (match (if List.exists (function OSetup _ -> true | _ -> false) ms then List.nth ms (List.length ms - 1) else List.hd ms) with
           | OSet _ -> Buffer.add_string b (Printf.sprintf " %d:%s" (match value with Some v -> int_of_z v | None -> 0) (hex_of_bytes (render toks)))
           | OGet _ -> Buffer.add_string b (match value with Some v -> Printf.sprintf " =%d" (int_of_z v) | None -> " =fail")
           | OSetup _ -> Buffer.add_string b (" S:" ^ hex_of_bytes (render toks))
           | _ -> Buffer.add_string b (" " ^ hex_of_bytes (render toks)));
          Some t'
        end) (Some t0) steps in
  Buffer.contents b
let oracle kp line =
  match String.split_on_char '|' line with
  | [cs; o] when String.length (String.trim cs) > 0 && (String.trim cs).[0] = 'B' -> oracle_b kp cs o
  | [cs; o] ->
    let c = parse_case (split_ws cs) in
    (match split_ws o with
     | init :: obs when String.length init >= 2 && String.sub init 0 2 = "I:" ->
       let start = bytes_of_hex (String.sub init 2 (String.length init - 2)) in
       let v0 = vt_run_bytes start (vt_init (z_of_int 25) (z_of_int 80)) in
       (* the terminal's own initial blink / shape, as it reports them *)
       let v0 = set_md v0 (md_set_blink v0.v_md (c.rpm12 = 1)) in
       let v0 = if c.decscusr >= 0 then set_md v0 (md_set_shape v0.v_md (z_of_int c.decscusr)) else v0 in
       let init_ms = ms_of_vt v0 in
       let steps = first_steps c @ effective c.layer c.delays c.ops in
       if List.length obs <> List.length steps then "BAD obs count" else begin
         (* taking or releasing a reference while the instance lives must write nothing *)
         let noisy = List.exists2 (fun st ob -> st = None && ob <> "-") steps obs in
         if noisy then "BAD bytes written by ref/unref" else begin
           let pairs = List.filter (fun (st, _) -> st <> None) (List.combine steps obs) in
           (* a step of several model operations (tickit_destroy) is judged as its last operation
              on all the bytes: the state demanded after destroy is the one demanded after teardown *)
           let items = List.map (fun (st, ob) ->
               let o = (match st with Some ms -> List.nth ms (List.length ms - 1) | None -> failwith "step") in
               match o with
               | OSet _ -> (match split_on ':' ob with [r; h] -> ((o, bytes_of_hex h), Some (zi r)) | _ -> failwith "obs set")
               | OGet _ -> if String.length ob > 1 && ob.[0] = '=' then
                   ((o, []), (try Some (zi (String.sub ob 1 (String.length ob - 1))) with _ -> None)) else failwith "obs get"
               | OSetup _ -> if String.length ob >= 2 && String.sub ob 0 2 = "S:" then
                   ((o, bytes_of_hex (String.sub ob 2 (String.length ob - 2))), None) else failwith "obs setup"
               | _ -> ((o, bytes_of_hex ob), None)) pairs in
           let s0 = { os_vt = v0; os_last = (fun _ -> None); os_pen = empty_pen; os_paused = false; os_stopped = false } in
           match oracle_modes kp c.colon c.rgb (if c.layer = 'W' then false else c.decscusr >= 0) init_ms O s0 items with
           | MOk n -> Printf.sprintf "OK %d" (int_of_nat n)
           | MOutOfRange i -> Printf.sprintf "OK range@%d" (int_of_nat i)
           | MBadAt (i, w) -> Printf.sprintf "BAD @%d why=%d" (int_of_nat i) (int_of_nat w)
         end
       end
     | _ -> "BAD obs")
  | _ -> "BAD line"
let () =
  let mode = if Array.length Sys.argv > 1 then Sys.argv.(1) else "model" in
  let f = match mode with "oracle" -> oracle true | "oracle-nokp" -> oracle false | _ -> model in
  iter_lines (fun l -> print_endline (try f l with Failure m -> (if mode <> "model" then "BAD ERR " else "ERR ") ^ m
                                                 | Invalid_argument m -> "BAD ERR " ^ m))
