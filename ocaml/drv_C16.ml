(* driver for C16.  Case line and observation format: see harness/C16.c.
   model mode  : runs the extracted interpreter [exec] (BindDefs.v) with the environment
                 described by the case line and prints the trace.
   oracle mode : parses "<case> | <observation>", rebuilds the trace from the observation
                 alone and prints OK / BAD <clause> by the extracted monitor [verdict]
                 and the state checkers [swept], [ids_ok] (BindSpec.v).
   The environment variable C16_CFG=pinned selects the model of the unchanged library. *)
let zi = z_of_int
let iz = int_of_z

let parse_act s =
  let n = String.length s in
  if n = 0 then failwith "act" else
  let rest = String.sub s 1 (n - 1) in
  match s.[0] with
  | 'b' -> (match String.split_on_char '.' rest with
            | [e; f; h] -> ABind (zi (int_of_string e), zi (int_of_string f), zi (int_of_string h))
            | _ -> failwith "act")
  | 'u' -> AUnbind (zi (int_of_string rest))
  | 'e' -> AEmit (zi (int_of_string rest))
  | 'w' -> AEmitWF (zi (int_of_string rest))
  | 'x' when n = 1 -> ADestroy
  | _ -> failwith "act"

let parse_script s =
  match String.split_on_char '/' s with
  | [r; o; a] ->
    let acts = if a = "-" then [] else List.map parse_act (String.split_on_char ',' a) in
    if List.mem ADestroy acts then failwith "case";
    (int_of_string r, int_of_string o <> 0, acts)
  | _ -> failwith "case"

let kind_of flags = if flags land 4 <> 0 then 2 else if flags land 1 <> 0 then 0 else 1

(* the environment of the case: handler hid, invoked with [flags] for binding [name],
   given the trace so far (newest first, beginning with the TCallB of this invocation) *)
let env_of scripts maxdepth : env_t = fun tr hid name flags ->
  let hid = iz hid and flags = iz flags in
  let tr = (match tr with TCallB _ :: rest -> rest | _ -> failwith "env: no TCallB") in
  let depth = List.fold_left (fun d e -> match e with TCallB _ -> d + 1 | TCallE _ -> d - 1 | _ -> d) 0 tr in
  let hid_of n = List.fold_left (fun acc e -> match e with
      | TBind (n', _, _, h, _) when iz n' = n -> Some (iz h) | _ -> acc) None tr in
  let kind = kind_of flags in
  let (ret, once, acts) = scripts.(hid).(kind) in
  let seen = List.exists (fun e -> match e with
      | TCallB (n', f') -> kind_of (iz f') = kind && hid_of (iz n') = Some hid | _ -> false) tr in
  ((if depth < maxdepth && not (once && seen) then acts else []), zi ret)

let rec nat_of_int n acc = if n = 0 then acc else nat_of_int (n - 1) (S acc)
let fuel = nat_of_int 200000 O

let parse_case toks =
  match toks with
  | mode :: md :: rest when List.length rest >= 9 ->
    let scripts = Array.make_matrix 3 3 (0, false, []) in
    List.iteri (fun i s -> if i < 9 then scripts.(i / 3).(i mod 3) <- parse_script s) rest;
    let ops = List.filteri (fun i _ -> i >= 9) rest |> List.map parse_act in
    if not (List.mem mode ["D"; "T"; "P"]) then failwith "case";
    (mode, int_of_string md, scripts, ops)
  | _ -> failwith "case"

let emits : bool list ref = ref []
let pr_tev b depth mode = function
  | TBind (n, e, f, h, i) -> Printf.bprintf b " B:%d:%d:%d:%d:%d" (iz n) (iz e) (iz f) (iz h) (iz i)
  | TUnbindB i -> Printf.bprintf b " U:%d" (iz i)
  | TUnbindE -> Buffer.add_string b " u"
  | TEmitB (wf, e) -> emits := wf :: !emits; Printf.bprintf b " %s:%d" (if wf then "W" else "E") (iz e)
  | TEmitE r ->
    let wf = (match !emits with w :: tl -> emits := tl; w | [] -> false) in
    (* the public emit_key / emit_mouse calls do not return the result *)
    if wf && mode <> "D" then Buffer.add_string b " e:?" else Printf.bprintf b " e:%d" (iz r)
  | TDestroyB -> Buffer.add_string b " X"
  | TDestroyE -> Buffer.add_string b " x"
  | TCallB (n, f) -> Printf.bprintf b " C:%d:%d:%d" (iz n) (iz f) !depth; incr depth
  | TCallE r -> decr depth; Printf.bprintf b " c:%d" (iz r)

let pr_state b s =
  Printf.bprintf b " S:%d%d:" (if s.is_iter then 1 else 0) (if s.needs_del then 1 else 0);
  if s.first = [] then Buffer.add_string b "-" else
    Buffer.add_string b (String.concat "," (List.map (fun x ->
        Printf.sprintf "%d.%d.%d.%d" (iz x.b_id) (iz x.b_ev) (iz x.b_flags) (iz x.b_data)) s.first))

let bad_public mode a =
  match mode, a with
  | "D", _ -> false
  | _, (ABind _ | AUnbind _ | ADestroy) -> false
  | "T", AEmit e -> iz e <> 1
  | "T", AEmitWF e -> iz e <> 2 && iz e <> 3
  | "P", AEmit e -> iz e <> 1
  | _ -> true

let model line =
  let (mode, maxdepth, scripts, ops) = parse_case (split_ws line) in
  let cfg = if (try Sys.getenv "C16_CFG" with Not_found -> "") = "pinned" then pinned else fixed in
  let env = env_of scripts maxdepth in
  let b = Buffer.create 256 in
  Buffer.add_string b "T";
  let depth = ref 0 in
  emits := [];
  let rec go w ops =
    match ops with
    | [] -> ()
    | a :: rest ->
      (match a with ABind (_, _, h) when iz h < 0 || iz h > 2 -> failwith "case" | _ -> ());
      match exec cfg env fuel (KAct a) w with
      | Ok (w1, _) ->
        (* print the events this op added (wt is newest first) *)
        let added = List.filteri (fun i _ -> i < List.length w1.wt - List.length w.wt) w1.wt in
        List.iter (pr_tev b depth mode) (List.rev added);
        if mode = "D" then pr_state b w1.ws;
        go w1 rest
      | Fault -> Buffer.add_string b " FAULT"
      | OutOfFuel -> Buffer.add_string b " FUEL"
  in
  if List.exists (bad_public mode) ops then "T ERR op" else begin
    go init_world ops; Buffer.contents b
  end

(* ---- oracle: observation -> trace + state dumps *)
let ints s = List.map int_of_string (String.split_on_char ':' s)

let oracle line =
  match String.split_on_char '|' line with
  | [_case; o] ->
    let toks = split_ws o in
    (match toks with
     | "T" :: toks ->
       let depth = ref 0 in
       let trace = ref [] in
       let bad = ref None in
       let fail m = if !bad = None then bad := Some m in
       let wfdepth = ref [] in
       List.iter (fun t ->
           let n = String.length t in
           let body = if n > 2 then String.sub t 2 (n - 2) else "" in
           match t.[0] with
           | 'B' -> (match ints body with
               | [nm; e; f; h; i] -> trace := TBind (zi nm, zi e, zi f, zi h, zi i) :: !trace
               | _ -> fail "parse")
           | 'U' -> trace := TUnbindB (zi (int_of_string body)) :: !trace
           | 'u' -> trace := TUnbindE :: !trace
           | 'E' -> trace := TEmitB (false, zi (int_of_string body)) :: !trace
           | 'W' -> trace := TEmitB (true, zi (int_of_string body)) :: !trace
           | 'e' -> trace := TEmitE (if body = "?" then Z0 else zi (int_of_string body)) :: !trace
           | 'X' -> trace := TDestroyB :: !trace
           | 'x' -> trace := TDestroyE :: !trace
           | 'C' -> (match ints body with
               | [nm; f; d] ->
                 if d <> !depth then fail "depth";
                 incr depth; trace := TCallB (zi nm, zi f) :: !trace
               | _ -> fail "parse")
           | 'c' -> decr depth; trace := TCallE (zi (int_of_string body)) :: !trace
           | 'S' ->
             (match String.split_on_char ':' body with
              | [fl; l] when String.length fl = 2 ->
                let nodes = if l = "-" then [] else List.map (fun s ->
                    match List.map int_of_string (String.split_on_char '.' s) with
                    | [i; e; f; d] -> { b_id = zi i; b_ev = zi e; b_flags = zi f; b_fn = None; b_data = zi d }
                    | _ -> failwith "state") (String.split_on_char ',' l) in
                let s = { first = nodes; is_iter = fl.[0] = '1'; needs_del = fl.[1] = '1' } in
                if not (swept s) then fail "sweep";
                if not (ids_ok s) then fail "ids-state"
              | _ -> fail "parse")
           | 'L' -> fail "leak"
           | _ -> fail ("token " ^ t)) toks;
       (match !bad with
        | Some m -> "BAD " ^ m
        | None ->
          match verdict (List.rev !trace) with
          | None -> "OK"
          | Some ENotLive -> "BAD not-live"
          | Some EOrder -> "BAD order"
          | Some ENotServed -> "BAD not-served"
          | Some EUnbind -> "BAD unbind"
          | Some EDestroy -> "BAD destroy"
          | Some EIds -> "BAD ids"
          | Some EProtocol -> "BAD protocol")
     | _ -> "BAD " ^ (match toks with t :: _ -> t | [] -> "empty"))
  | _ -> "BAD format"

let () =
  let f = if Array.length Sys.argv > 1 && Sys.argv.(1) = "oracle" then oracle else model in
  iter_lines (fun l -> print_endline (try f l with Failure m -> "ERR " ^ m | Not_found -> "ERR notfound" | Invalid_argument m -> "ERR " ^ m))
