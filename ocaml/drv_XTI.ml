(* driver for XTI (terminfo driver, beyond the given properties); see harness/XTI.c.  Model only. *)
let maybe_of s = match int_of_string s with 0 -> MNo | 1 -> MYes | _ -> MMaybe
let ctl_of = function "A" -> CtlAltscreen | "V" -> CtlCursorvis | "U" -> CtlMouse | "C" -> CtlColors | _ -> failwith "ctl"
let parse_op s =
  match split_on ':' s with
  | ["G"; l; c] -> IGoto (zi l, zi c)
  | ["M"; d; r] -> IMove (zi d, zi r)
  | ["P"; h] -> IPrint (bytes_of_hex h)
  | ["E"; n; me] -> IErase (zi n, maybe_of me)
  | ["K"] -> IClear
  | ["S"; t; l; h; w; d; r] -> IScroll ({ r_top = zi t; r_left = zi l; r_lines = zi h; r_cols = zi w }, zi d, zi r)
  | ["c"; p] -> IChpen (parse_pen p)
  | ["s"; p] -> ISetpen (parse_pen p)
  | [("A" | "V" | "U") as k; v] -> ISetctl (ctl_of k, zi v)
  | ["g"; k] -> IGetctl (ctl_of k)
  | ["Z"] -> IPause | ["R"] -> IResume | ["T"] -> ITeardown
  | _ -> failwith "op"
let model line =
  match split_ws line with
  | lines :: cols :: colours :: bce :: mask :: kmous :: ops ->
    let m = int_of_string mask in
    let has i = m land (1 lsl i) = 0 in
    let e = { e_vpa = has 0; e_hpa = has 1; e_cuu1 = has 2; e_cud1 = has 3; e_cuf1 = has 4; e_cub1 = has 5;
              e_ich1 = has 6; e_dch1 = has 7; e_il1 = has 8; e_dl1 = has 9; e_ritm = has 10; e_sitm = has 11;
              e_mouse = (kmous <> "0"); e_bce = (bce <> "0"); e_colours = zi colours } in
    let t0 = { tt_ent = e; tt_mode = timode_new; tt_pen = empty_pen; tt_lines = zi lines; tt_cols = zi cols;
               tt_started = true } in
    let b = Buffer.create 256 in
    Buffer.add_string b "I:-";
    let _ = List.fold_left (fun st op ->
        match st with
        | None -> Buffer.add_string b " FAULT"; None
        | Some t ->
          let o = parse_op op in
          (match ti_step t o with
           | None -> Buffer.add_string b " FAULT"; None
           | Some ((t', toks), res) ->
             (match o with
              | IGetctl _ -> Buffer.add_string b (if int_of_z res = -99 then " =fail" else Printf.sprintf " =%d" (int_of_z res))
              | _ -> Buffer.add_string b (Printf.sprintf " %d:%s" (int_of_z res) (hex_of_bytes (ti_render toks))));
             Some t')) (Some t0) ops in
    Buffer.contents b
  | _ -> failwith "case"
let () = iter_lines (fun l -> print_endline (try model l with Failure m -> "ERR " ^ m))
