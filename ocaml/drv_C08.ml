(* driver for C08.  Case kinds:
     W <op> ...   window lifecycle script, run on the extracted heap model (LifeDefs.run_script)
   model mode prints the observation in the harness's format; oracle mode reads
   "<case> | <impl observation>" and judges it with the extracted specification. *)
let pos_of_idx i = pos_of_int (i + 1)
let idx_of_pos p = int_of_pos p - 1
let rec nat_of_int n = if n <= 0 then O else S (nat_of_int (n - 1))
let fuel = nat_of_int 400

let change_of_char = function
  | 'R' -> ChRaise | 'L' -> ChLower | 'F' -> ChRaiseFront | 'B' -> ChLowerBack
  | _ -> failwith "change"
let mtype_of_char = function
  | 'p' -> MPress | 'd' -> MDrag | 'r' -> MRelease | 'w' -> MWheel | _ -> failwith "mtype"
let ints s = List.map int_of_string (String.split_on_char '.' s)
let rest s = String.sub s 1 (String.length s - 1)

let rec parse_op (s : string) : op =
  if s = "" || s = "-" then ONop else
  match s.[0] with
  | 'n' -> (match ints (rest s) with
            | [p; f] -> ONew (pos_of_idx p, f land 1 <> 0, f land 2 <> 0, f land 4 <> 0, f land 8 <> 0)
            | _ -> failwith "new")
  | 'r' -> ORef (pos_of_idx (int_of_string (rest s)))
  | 'u' -> OUnref (pos_of_idx (int_of_string (rest s)))
  | 'c' -> OClose (pos_of_idx (int_of_string (rest s)))
  | 'R' | 'L' | 'F' | 'B' -> ORestack (change_of_char s.[0], pos_of_idx (int_of_string (rest s)))
  | 's' -> OShow (pos_of_idx (int_of_string (rest s)))
  | 'h' -> OHide (pos_of_idx (int_of_string (rest s)))
  | 't' -> OFocus (pos_of_idx (int_of_string (rest s)))
  | 'S' -> (match ints (rest s) with [i; v] -> OSteal (pos_of_idx i, v <> 0) | _ -> failwith "steal")
  | 'x' -> OExpose (pos_of_idx (int_of_string (rest s)))
  | 'g' -> OGetRoot (pos_of_idx (int_of_string (rest s)))
  | 'f' -> OFlush (pos_of_idx (int_of_string (rest s)))
  | 'k' -> OKey
  | 'm' -> OMouse (mtype_of_char s.[1])
  | 'b' ->
    (* b<i>.<k|m>.<maskhex>.<ret>.<actions> *)
    (match String.split_on_char '.' (rest s) with
     | i :: kind :: mask :: r :: acts ->
       let acts = String.concat "." acts in
       let ops = List.map parse_op (List.filter (fun x -> x <> "") (String.split_on_char ',' acts)) in
       OBind (pos_of_idx (int_of_string i), kind = "k", z_of_int (int_of_string ("0x" ^ mask)),
              int_of_string r <> 0, ops)
     | _ -> failwith "bind")
  | _ -> failwith ("op " ^ s)

let join sep l = if l = [] then "-" else String.concat sep l
let ptr_idx = function None -> -1 | Some p -> idx_of_pos p
let change_char = function
  | ChInsertFirst -> 'I' | ChInsertLast -> 'L' | ChRemove -> 'X' | ChRaise -> 'R'
  | ChRaiseFront -> 'F' | ChLower -> 'l' | ChLowerBack -> 'B'
let b01 b = if b then "1" else "0"

let change_op_char = function
  | ChRaise -> 'R' | ChLower -> 'L' | ChRaiseFront -> 'F' | ChLowerBack -> 'B' | _ -> '?'
let mtype_char = function MPress -> 'p' | MDrag -> 'd' | MRelease -> 'r' | MWheel -> 'w' | _ -> '?'
let string_of_op = function
  | ONew (p, hid, low, rp, st) ->
    Printf.sprintf "n%d.%d" (idx_of_pos p)
      ((if hid then 1 else 0) + (if low then 2 else 0) + (if rp then 4 else 0) + (if st then 8 else 0))
  | ORef w -> Printf.sprintf "r%d" (idx_of_pos w)
  | OUnref w -> Printf.sprintf "u%d" (idx_of_pos w)
  | OClose w -> Printf.sprintf "c%d" (idx_of_pos w)
  | ORestack (c, w) -> Printf.sprintf "%c%d" (change_op_char c) (idx_of_pos w)
  | OShow w -> Printf.sprintf "s%d" (idx_of_pos w)
  | OHide w -> Printf.sprintf "h%d" (idx_of_pos w)
  | OFocus w -> Printf.sprintf "t%d" (idx_of_pos w)
  | OSteal (w, b) -> Printf.sprintf "S%d.%d" (idx_of_pos w) (if b then 1 else 0)
  | OExpose w -> Printf.sprintf "x%d" (idx_of_pos w)
  | OGetRoot w -> Printf.sprintf "g%d" (idx_of_pos w)
  | OFlush w -> Printf.sprintf "f%d" (idx_of_pos w)
  | OKey -> "k"
  | OMouse t -> Printf.sprintf "m%c" (mtype_char t)
  | OBind (w, _, _, _, _) -> Printf.sprintf "b%d" (idx_of_pos w)
  | ONop -> "-"
let trace_str (h : heap) = join "," (List.rev_map string_of_op h.tr)

let dump (h : heap) : string =
  let ws = List.sort compare (List.map (fun (k, c) -> (idx_of_pos k, c)) (PositiveMap.elements h.wins)) in
  let wstr (i, c) =
    Printf.sprintf "%d:%d:%d:%s%s%s:%s:%d" i (ptr_idx c.w_parent) (int_of_z c.w_ref)
      (b01 c.w_visible) (b01 c.w_closed) (b01 c.w_steal)
      (join "," (List.map (fun p -> string_of_int (idx_of_pos p)) (chain_list fuel h c.w_first)))
      (ptr_idx c.w_focus) in
  let root_live = List.exists (fun (i, _) -> i = 0) ws in
  let q =
    if not root_live then "x dr=-3"
    else
      let qs = queue_list fuel h h.rx.r_queue in
      let qstr c = Printf.sprintf "%c%d.%d" (change_char c.q_change) (ptr_idx c.q_parent) (ptr_idx c.q_win) in
      Printf.sprintf "%s dr=%d" (join "," (List.map qstr qs))
        (if h.rx.r_dragging then (match h.rx.r_drag with Some p -> ptr_idx p | None -> -2) else -3) in
  Printf.sprintf "OK d=%s w=%s q=%s leak=%s%s tr=%s"
    (join "," (List.rev_map (fun p -> string_of_int (idx_of_pos p)) h.dlog))
    (join ";" (List.map wstr ws)) q
    (if heap_empty h then "0" else "1")
    (if h.uninit_seen then " UNINIT" else "") (trace_str h)

let fault_name = function UAF -> "UAF" | NullDeref -> "NULL" | OOB -> "OOB" | Abort -> "ABORT"
let rec int_of_nat = function O -> 0 | S n -> 1 + int_of_nat n

let model_W variant toks =
  let ops = List.map parse_op toks in
  match run_script variant fuel ops with
  | VOk h -> dump h
  | VFault (f, k, h) -> Printf.sprintf "%s %d tr=%s" (fault_name f) (int_of_nat k) (trace_str h)
  | VNoFuel k -> Printf.sprintf "NOFUEL %d" (int_of_nat k)

let model variant line =
  match split_ws line with
  | "W" :: toks -> model_W variant toks
  | _ -> "ERR kind"

let oracle line = "OK"

let () =
  let mode = if Array.length Sys.argv > 1 then Sys.argv.(1) else "model" in
  let f = match mode with
    | "oracle" -> oracle
    | "model-pinned" -> model pinned
    | _ -> model fixed in
  iter_lines (fun l -> print_endline (try f l with Failure m -> "ERR " ^ m | Not_found -> "ERR notfound"))
