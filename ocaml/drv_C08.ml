(* driver for C08.  Case kinds:
     W <op> ...   window lifecycle script, run on the extracted heap model (LifeDefs.run_script)
   model mode prints the observation in the harness's format; oracle mode reads
   "<case> | <impl observation>" and judges it with the extracted specification. *)
let pos_of_idx i = pos_of_int (i + 1)
let idx_of_pos p = int_of_pos p - 1
let rec nat_of_int n = if n <= 0 then O else S (nat_of_int (n - 1))
let fuel = nat_of_int 400

let change_of_char = function
  | 'R' -> ChRaise | 'L' -> ChLower | 'F' -> ChRaiseFront | 'B' -> ChLowerBack
  | _ -> failwith "change"
let mtype_of_char = function
  | 'p' -> MPress | 'd' -> MDrag | 'r' -> MRelease | 'w' -> MWheel | _ -> failwith "mtype"
let ints s = List.map int_of_string (String.split_on_char '.' s)
let rest s = String.sub s 1 (String.length s - 1)

let bind_serial = ref 0
let hkind_of = function
  | "k" -> HKey | "m" -> HMouse | "e" -> HExpose | "f" -> HFocus | "g" -> HGeom | "d" -> HDestroy
  | k -> failwith ("handler kind " ^ k)

let rec parse_op (s : string) : op =
  if s = "" || s = "-" then ONop else
  match s.[0] with
  | 'n' -> (match ints (rest s) with
            | [p; f] -> ONew (pos_of_idx p, f land 1 <> 0, f land 2 <> 0, f land 4 <> 0, f land 8 <> 0)
            | _ -> failwith "new")
  | 'r' -> ORef (pos_of_idx (int_of_string (rest s)))
  | 'u' -> OUnref (pos_of_idx (int_of_string (rest s)))
  | 'c' -> OClose (pos_of_idx (int_of_string (rest s)))
  | 'R' | 'L' | 'F' | 'B' -> ORestack (change_of_char s.[0], pos_of_idx (int_of_string (rest s)))
  | 's' -> OShow (pos_of_idx (int_of_string (rest s)))
  | 'h' -> OHide (pos_of_idx (int_of_string (rest s)))
  | 't' -> OFocus (pos_of_idx (int_of_string (rest s)))
  | 'S' -> (match ints (rest s) with [i; v] -> OSteal (pos_of_idx i, v <> 0) | _ -> failwith "steal")
  | 'N' -> (match ints (rest s) with [i; v] -> ONotify (pos_of_idx i, v <> 0) | _ -> failwith "notify")
  | 'p' -> OMove (pos_of_idx (int_of_string (rest s)))
  | 'Z' -> OResize
  | 'x' -> OExpose (pos_of_idx (int_of_string (rest s)))
  | 'g' -> OGetRoot (pos_of_idx (int_of_string (rest s)))
  | 'f' -> OFlush (pos_of_idx (int_of_string (rest s)))
  | 'k' -> OKey
  | 'm' -> OMouse (mtype_of_char s.[1])
  | 'b' ->
    (* b<i>.<k|m>.<maskhex>.<ret>.<actions> *)
    (match String.split_on_char '.' (rest s) with
     | i :: kind :: mask :: r :: acts ->
       let acts = String.concat "." acts in
       let ops = List.map parse_op (List.filter (fun x -> x <> "") (String.split_on_char ',' acts)) in
       let id = !bind_serial in
       incr bind_serial;
       OBind (pos_of_idx (int_of_string i), z_of_int id, hkind_of kind, z_of_int (int_of_string ("0x" ^ mask)),
              int_of_string r <> 0, ops)
     | _ -> failwith "bind")
  | 'U' -> (match ints (rest s) with [i; n] -> OUnbind (pos_of_idx i, z_of_int n) | _ -> failwith "unbind")
  | 'y' -> OGeom (pos_of_idx (int_of_string (rest s)))
  | 'q' | 'z' | 'P' -> OTouch (pos_of_idx (int_of_string (rest s)), None, false)
  | 'Q' -> (match ints (rest s) with [i; j] -> OTouch (pos_of_idx i, Some (pos_of_idx j), false) | _ -> failwith "pen op")
  | 'o' -> (match ints (rest s) with [i; j] -> OTouch (pos_of_idx i, Some (pos_of_idx j), true) | _ -> failwith "pen op")
  | _ -> failwith ("op " ^ s)

let join sep l = if l = [] then "-" else String.concat sep l
let ptr_idx = function None -> -1 | Some p -> idx_of_pos p
let change_char = function
  | ChInsertFirst -> 'I' | ChInsertLast -> 'L' | ChRemove -> 'X' | ChRaise -> 'R'
  | ChRaiseFront -> 'F' | ChLower -> 'l' | ChLowerBack -> 'B'
let b01 b = if b then "1" else "0"

let change_op_char = function
  | ChRaise -> 'R' | ChLower -> 'L' | ChRaiseFront -> 'F' | ChLowerBack -> 'B' | _ -> '?'
let mtype_char = function MPress -> 'p' | MDrag -> 'd' | MRelease -> 'r' | MWheel -> 'w' | _ -> '?'
let string_of_op = function
  | ONew (p, hid, low, rp, st) ->
    Printf.sprintf "n%d.%d" (idx_of_pos p)
      ((if hid then 1 else 0) + (if low then 2 else 0) + (if rp then 4 else 0) + (if st then 8 else 0))
  | ORef w -> Printf.sprintf "r%d" (idx_of_pos w)
  | OUnref w -> Printf.sprintf "u%d" (idx_of_pos w)
  | OClose w -> Printf.sprintf "c%d" (idx_of_pos w)
  | ORestack (c, w) -> Printf.sprintf "%c%d" (change_op_char c) (idx_of_pos w)
  | OShow w -> Printf.sprintf "s%d" (idx_of_pos w)
  | OHide w -> Printf.sprintf "h%d" (idx_of_pos w)
  | OFocus w -> Printf.sprintf "t%d" (idx_of_pos w)
  | OSteal (w, b) -> Printf.sprintf "S%d.%d" (idx_of_pos w) (if b then 1 else 0)
  | OMove w -> Printf.sprintf "p%d" (idx_of_pos w)
  | OResize -> "Z"
  | ONotify (w, b) -> Printf.sprintf "N%d.%d" (idx_of_pos w) (if b then 1 else 0)
  | OExpose w -> Printf.sprintf "x%d" (idx_of_pos w)
  | OGetRoot w -> Printf.sprintf "g%d" (idx_of_pos w)
  | OFlush w -> Printf.sprintf "f%d" (idx_of_pos w)
  | OKey -> "k"
  | OMouse t -> Printf.sprintf "m%c" (mtype_char t)
  | OBind (w, _, _, _, _, _) -> Printf.sprintf "b%d" (idx_of_pos w)
  | OUnbind (w, n) -> Printf.sprintf "U%d.%d" (idx_of_pos w) (int_of_z n)
  | OGeom w -> Printf.sprintf "y%d" (idx_of_pos w)
  | OTouch (w, None, _) -> Printf.sprintf "q%d" (idx_of_pos w)
  | OTouch (w, Some j, false) -> Printf.sprintf "Q%d.%d" (idx_of_pos w) (idx_of_pos j)
  | OTouch (w, Some j, true) -> Printf.sprintf "o%d.%d" (idx_of_pos w) (idx_of_pos j)
  | ONop -> "-"
  | OFrameRef w -> Printf.sprintf "+%d" (idx_of_pos w)
  | OFrameUnref w -> Printf.sprintf "~%d" (idx_of_pos w)
(* the trace the harness can see: the client's calls (the library's frame references are the model's own record) *)
let client_call = function OFrameRef _ | OFrameUnref _ -> false | _ -> true
let trace_str (h : heap) = join "," (List.rev_map string_of_op (List.filter client_call h.tr))

let dump (h : heap) : string =
  let ws = List.sort compare (List.map (fun (k, c) -> (idx_of_pos k, c)) (PositiveMap.elements h.wins)) in
  let wstr (i, c) =
    Printf.sprintf "%d:%d:%d:%s%s%s:%s:%d" i (ptr_idx c.w_parent) (int_of_z c.w_ref)
      (b01 c.w_visible) (b01 c.w_closed) (b01 c.w_steal)
      (join "," (List.map (fun p -> string_of_int (idx_of_pos p)) (chain_list fuel h c.w_first)))
      (ptr_idx c.w_focus) in
  let root_live = List.exists (fun (i, _) -> i = 0) ws in
  let q =
    if not root_live then "x dr=-3"
    else
      let qs = queue_list fuel h h.rx.r_queue in
      let qstr c = Printf.sprintf "%c%d.%d" (change_char c.q_change) (ptr_idx c.q_parent) (ptr_idx c.q_win) in
      Printf.sprintf "%s dr=%d" (join "," (List.map qstr qs))
        (if h.rx.r_dragging then (match h.rx.r_drag with Some p -> ptr_idx p | None -> -2) else -3) in
  Printf.sprintf "OK d=%s w=%s q=%s leak=%s%s tr=%s"
    (join "," (List.rev_map (fun p -> string_of_int (idx_of_pos p)) h.dlog))
    (join ";" (List.map wstr ws)) q
    (if heap_empty h then "0" else "1")
    (if h.uninit_seen then " UNINIT" else "") (trace_str h)

let fault_name = function UAF -> "UAF" | NullDeref -> "NULL" | OOB -> "OOB" | Abort -> "ABORT"
let rec int_of_nat = function O -> 0 | S n -> 1 + int_of_nat n

let model_W variant toks =
  bind_serial := 0;
  let ops = List.map parse_op toks in
  match run_script variant fuel ops with
  | VOk h -> dump h
  | VFault (f, k, h) -> Printf.sprintf "%s %d tr=%s" (fault_name f) (int_of_nat k) (trace_str h)
  | VNoFuel k -> Printf.sprintf "NOFUEL %d" (int_of_nat k)

(* ---- T: copy-out ---------------------------------------------------------------------- *)
let bytes_of_hex s =
  if s = "-" then [] else
  List.init (String.length s / 2) (fun i -> z_of_int (int_of_string ("0x" ^ String.sub s (2 * i) 2)))
let hex_of_bytes l =
  if l = [] then "-" else String.concat "" (List.map (fun z -> Printf.sprintf "%02x" (int_of_z z)) l)
let fresh_buf n = List.init n (fun _ -> z_of_int 0xAA)

let model_T asis toks =
  match toks with
  | ["c"; _; _; len; slice] ->
    (match get_span_text asis (CText (bytes_of_hex slice)) (fresh_buf (int_of_string len)) with
     | Some (r, b) -> Printf.sprintf "OK %d %s" (int_of_z r) (hex_of_bytes b)
     | None -> "OOB 0 tr=-")
  | ["s"; _; _; len; slice] ->
    (match get_span_call asis (CText (bytes_of_hex slice)) (fresh_buf (int_of_string len)) with
     | Some ((r, il), b) -> Printf.sprintf "OK %d %d %s" (int_of_z r) (int_of_z il) (hex_of_bytes b)
     | None -> "OOB 0 tr=-")
  | ["l"; len; g] | ["h"; _; len; g] ->
    (match get_span_text asis (CGlyph (bytes_of_hex g)) (fresh_buf (int_of_string len)) with
     | Some (r, b) -> Printf.sprintf "OK %d %s" (int_of_z r) (hex_of_bytes b)
     | None -> "OOB 0 tr=-")
  | ["e"; len] | ["k"; len] ->
    (match get_span_text asis CEmpty (fresh_buf (int_of_string len)) with
     | Some (r, b) -> Printf.sprintf "OK %d %s" (int_of_z r) (hex_of_bytes b)
     | None -> "OOB 0 tr=-")
  | ["n"; _; _; slice] ->
    (* buffer == NULL: the length is returned and nothing can be written *)
    Printf.sprintf "OK %d -" (List.length (bytes_of_hex slice))
  | ["m"; _; _; _; len; cells] ->
    let cells = List.map bytes_of_hex (String.split_on_char ',' cells) in
    (match mock_display_text cells (fresh_buf (int_of_string len)) with
     | Some (r, b) -> Printf.sprintf "OK %d %s" (int_of_z r) (hex_of_bytes b)
     | None -> "OOB 0 tr=-")
  | _ -> "ERR T"

(* ---- O: other object kinds ------------------------------------------------------------ *)
let obj i = pos_of_idx i
let parse_oop (s : string) : oop =
  if s = "-" || s = "T+n" then ObUse [] else   (* T+n: tickit_term_build with a type no driver accepts: no object *)
  if String.length s >= 2 && s.[1] = '+' then
    (match s.[0] with
     | 'K' -> ObNew ([obj (int_of_string (String.sub s 2 (String.length s - 2)))], [])
     | _ -> ObNew ([], []))
  else if String.length s >= 2 && s.[0] = 'P' && s.[1] = 'c' then
    ObNew ([], [obj (int_of_string (String.sub s 2 (String.length s - 2)))])
  else
    let args = String.split_on_char '.' (rest s) in
    let i = obj (int_of_string (List.hd args)) in
    match s.[0] with
    | 'r' -> ObRef i
    | 'u' -> ObUnref i
    | 'y' | 'p' | 'h' | 'f' | 'b' -> ObUse [i; obj (int_of_string (List.nth args 1))]
    | _ -> ObUse [i]

(* H<i>.<j> binds on object i (terminal: KEY, pen: CHANGE) a handler that drops one reference to object j the first time
   it fires.  The reference-count model has no handlers: the script is expanded here -- every library call that dispatches
   the owner's event is followed by the unrefs of the handlers that are still armed, in binding order.  Returns the ops and,
   for each, the index of the token it came from. *)
let expand_O (toks : string list) : oop list * int list =
  let handlers = ref [] in                        (* (owner, target, armed ref), in binding order *)
  let out = ref [] in
  let emit t o = out := (o, t) :: !out in
  let fire t owner =
    List.iter (fun (ow, tg, armed) -> if ow = owner && !armed then begin armed := false; emit t (ObUnref (obj tg)) end) !handlers in
  List.iteri (fun t s ->
    let plain () = emit t (parse_oop s) in
    if s = "-" || (String.length s >= 2 && s.[1] = '+') || (String.length s >= 2 && s.[0] = 'P' && s.[1] = 'c') then plain ()
    else
      let args = String.split_on_char '.' (rest s) in
      let i = int_of_string (List.hd args) in
      match s.[0] with
      | 'H' -> let j = int_of_string (List.nth args 1) in
               emit t (ObUse [obj i; obj j]); handlers := !handlers @ [(i, j, ref true)]
      | 'k' | 'i' -> plain (); fire t i                               (* one call, KEY events *)
      | 'a' ->                                                         (* o_setattrs: this many setter calls, each runs CHANGE *)
        let calls = (match int_of_string (List.nth args 1) with 0 -> 1 | 1 -> 2 | 2 -> 1 | _ -> 12) in
        for _ = 1 to calls do plain (); fire t i done
      | _ -> plain ()) toks;
  let l = List.rev !out in
  (List.map fst l, List.map snd l)

let model_O toks =
  let (ops, at) = expand_O toks in
  match o_run fuel ops with
  | OVOk leak -> Printf.sprintf "OK leak=%d" (if leak then 1 else 0)
  | OVFault k -> Printf.sprintf "UAF %d tr=-" (List.nth at (int_of_nat k))
  | OVNoFuel k -> Printf.sprintf "NOFUEL %d" (int_of_nat k)

(* ---- R: the pen stack of a render buffer ------------------------------------------------ *)
let r_lines = nat_of_int 3
let parse_rop (s : string) : rop =
  match s.[0] with
  | 's' -> RSave
  | 'S' -> RSavePen
  | 'x' -> RRestore
  | 'p' -> RSetPen (s <> "pN")
  | 't' -> RText (nat_of_int (int_of_string (rest s)))
  | 'e' -> RErase (nat_of_int (int_of_string (rest s)))
  | 'c' -> RClear
  | 'z' -> RReset
  | 'f' | 'F' -> RFlush
  | _ -> failwith ("R op " ^ s)

let model_R toks =
  match rb_run r_lines (List.map parse_rop toks) with
  | RVOk (obs, lp, ls) ->
    let cell ((p, s), f) = Printf.sprintf "%d.%d.%d" (int_of_z p) (int_of_z s) (int_of_z f) in
    Printf.sprintf "OK %s end=%d.%d leak=0"
      (if obs = [] then "-" else String.concat "," (List.map cell obs)) (int_of_z lp) (int_of_z ls)
  | RVFault k -> Printf.sprintf "UAF %d tr=-" (int_of_nat k)

let model variant line =
  match split_ws line with
  | "R" :: toks -> model_R toks
  | "W" :: toks -> model_W variant toks
  | "T" :: toks -> model_T variant.v_destroy_asis toks
  | "O" :: toks -> model_O toks
  | _ -> "ERR kind"

(* ---- oracle: "<case> | <impl observation>" --------------------------------------------- *)
let strip_detail o =
  match String.index_opt o '#' with Some i -> String.trim (String.sub o 0 i) | None -> String.trim o
let field name toks =
  let pre = name ^ "=" in
  let n = String.length pre in
  List.fold_left (fun acc t -> if String.length t >= n && String.sub t 0 n = pre
                                then Some (String.sub t n (String.length t - n)) else acc) None toks
let rec take n l = if n <= 0 then [] else match l with [] -> [] | x :: t -> x :: take (n - 1) t

let oracle line =
  match String.index_opt line '|' with
  | None -> "BAD no-observation"
  | Some bar ->
    let case = String.trim (String.sub line 0 bar) in
    let obs = strip_detail (String.sub line (bar + 1) (String.length line - bar - 1)) in
    let otoks = split_ws obs in
    let completed = (match otoks with "OK" :: _ -> true | _ -> false) && not (List.mem "UNINIT" otoks) in
    let leak = field "leak" otoks = Some "1" in
    (match split_ws case with
     | "W" :: _ ->
       (match field "tr" otoks with
        | None -> "BAD no-trace"
        | Some tr ->
          let ops = if tr = "-" then [] else
              List.map (fun t -> if t.[0] = 'b' then OBind (pos_of_idx (int_of_string (rest t)), Z0, HKey, Z0, false, [])
                         else parse_op t) (String.split_on_char ',' tr) in
          (* cross-check of the two formulations of the client's side: what the heap-independent
             discipline accepts must satisfy the hypothesis of the proved theorems *)
          bind_serial := 0;
          let script = List.map parse_op (List.tl (split_ws case)) in
          let evfree = List.for_all event_free_op script in
          (* and of the two disciplines: a trace of client calls that the predictive checker (LifeSpec.v) accepts
             must, with the library's frame references that the model recorded, be accepted by the checker for
             histories with events (LifeSpecEv.v) *)
          let full = (match run_script fixed fuel script with VOk h -> h.tr | VFault (_, _, h) -> h.tr | VNoFuel _ -> []) in
          (* the theorems are about the variant in which DESTROY handlers make no calls; on a history that binds no
             DESTROY handler with calls it must give the very observation of the variant that is compared with the library *)
          let rec calls_in_destroy o = (match o with
            | OBind (_, _, HDestroy, _, _, acts) -> List.exists (fun a -> a <> ONop) acts || List.exists calls_in_destroy acts
            | OBind (_, _, _, _, _, acts) -> List.exists calls_in_destroy acts
            | _ -> false) in
          let dquiet = not (List.exists calls_in_destroy script) in
          if dquiet && model_W fixed (List.tl (split_ws case)) <> model_W fixedh (List.tl (split_ws case))
          then "BAD the two variants of the model differ on a history without calls from DESTROY handlers"
          else if evfree && wf_client script && not (client_okb fuel script (heap0 fixed))
          then "BAD discipline accepts a history outside the theorems' hypothesis"
          else if dquiet && full <> [] && wf_client (List.filter client_call (List.rev full)) && not (wf_trace full)
          then "BAD the discipline for histories with events rejects a trace that the client discipline accepts"
          else if oracle_W ops completed leak then "OK" else "BAD well-formed client, implementation: " ^ obs)
     | "O" :: toks ->
       let (ops, at) = expand_O toks in
       (* a run that stopped at token k executed (at most) what tokens 0..k stand for *)
       let ops = if completed then ops else
           (match otoks with
            | _ :: k :: _ -> let k = int_of_string k in
                             List.map fst (List.filter (fun (_, t) -> t <= k) (List.combine ops at))
            | _ -> ops) in
       if oracle_O ops completed leak then "OK" else "BAD well-formed client, implementation: " ^ obs
     | "R" :: _ ->
       (* every program of render buffer calls is a well-formed client *)
       if completed && not leak && field "end" otoks = Some "0.0" then "OK"
       else "BAD render buffer calls only, implementation: " ^ obs
     | "T" :: _ -> if oracle_T completed then "OK" else "BAD wrote beyond the length given: " ^ obs
     | _ -> "BAD kind")

let () =
  let mode = if Array.length Sys.argv > 1 then Sys.argv.(1) else "model" in
  let f = match mode with
    | "oracle" -> oracle
    | "model-pinned" -> model pinned
    | "model-nodh" -> model fixed
    | _ -> model fixedh in
  iter_lines (fun l -> print_endline (try f l with Failure m -> "ERR " ^ m | Not_found -> "ERR notfound"
                                               | Invalid_argument m -> "ERR " ^ m))
