(* driver for C07 (see harness/C07.c for the case formats).
   `model`  prints the observation of the extracted executable model (Utf8Defs);
   `oracle` reads "<case> | <impl observation>" and answers OK / BAD using only the extracted
   specification checkers of Utf8Spec (count_checkb, resume_checkb, roundtrip_checkb). *)
let zi = z_of_int
let iz = int_of_z
let bytes_of_hex s =
  if s = "-" then [] else
    List.init (String.length s / 2) (fun i -> int_of_string ("0x" ^ String.sub s (2 * i) 2))
let hex_of_bytes l = if l = [] then "-" else String.concat "" (List.map (Printf.sprintf "%02x") l)
let zbytes l = List.map zi l
let mkpos b c g w = { p_bytes = zi b; p_cps = zi c; p_graphs = zi g; p_cols = zi w }
let parse_limit s =
  if s = "n" then None
  else match List.map int_of_string (String.split_on_char ',' s) with
    | [b; c; g; w] -> Some (mkpos b c g w)
    | _ -> failwith "limit"
let pr_pos p = Printf.sprintf "%d %d %d %d" (iz p.p_bytes) (iz p.p_cps) (iz p.p_graphs) (iz p.p_cols)
let pr_cres = function
  | CFault -> "FAULT"
  | CFuel -> "FUEL"
  | CRet (r, p) -> Printf.sprintf "%d %s" (iz r) (pr_pos p)
(* the buffer the C side sees: terminated = bytes + NUL and nothing after it; bounded = the bytes *)
let buffer bytes len = if len = -1 then zbytes bytes @ [Z0] else zbytes bytes
let zlen len = if len = -1 then None else Some (zi len)
let check_len bytes len = if len <> -1 && len <> List.length bytes then failwith "len"

let pr_table name t =
  Printf.sprintf "%s %d%s" name (List.length t)
    (String.concat "" (List.map (fun (a, b) -> Printf.sprintf " %d %d" (iz a) (iz b)) t))

let fnv_step h b =
  ((h lxor b) * 1099511628211) land 0x3fffffffffffffff

let sweep lo hi =
  let b = Buffer.create 4096 in
  Buffer.add_string b "@";
  let h = ref (1469598103934665603 land 0x3fffffffffffffff) in
  (* the C starts from the full 64-bit offset basis; masking happens after the first multiply,
     and (x land m) * p land m = x * p land m, so starting from the masked basis is the same *)
  let prev = ref "" in
  for cp = lo to hi - 1 do
    let zcp = zi cp in
    let n = iz (u8_seqlen zcp) in
    let (r, wr) = u8_put false (zi n) zcp in
    let bytes = match wr with Some l -> l | None -> [] in
    List.iter (fun x -> h := fnv_step !h (iz x)) bytes;
    let ra = u8_ncountmore bytes (Some (zi n)) pos_zero None in
    let (rs, ws) = u8_put false (zi (n - 1)) zcp in
    let (rn, _) = u8_put true Z0 zcp in
    let rb = u8_ncountmore (bytes @ [Z0]) None pos_zero None in
    let cur = Printf.sprintf "%d,%d,%s,%s,%d,%d,%d" n (iz r)
        (String.concat "," (split_ws (pr_cres ra))) (String.concat "," (split_ws (pr_cres rb)))
        (iz rs) (if ws = None then 1 else 0) (iz rn) in
    if cur <> !prev then begin
      Buffer.add_string b (Printf.sprintf " %d:%s" cp cur); prev := cur end
  done;
  Buffer.add_string b (Printf.sprintf " h=%d" !h);
  Buffer.contents b

let count_case toks =
  match toks with
  | [hex; len; pb; pc; pg; pw; lim] ->
    let bytes = bytes_of_hex hex and len = int_of_string len in
    check_len bytes len;
    (bytes, len, mkpos (int_of_string pb) (int_of_string pc) (int_of_string pg) (int_of_string pw), parse_limit lim)
  | _ -> failwith "case"

let model line =
  match split_ws line with
  | ["T"] -> pr_table "comb" combining ^ " ; " ^ pr_table "full" fullwidth
  | ["P"; lo; hi] -> sweep (int_of_string lo) (int_of_string hi)
  | "C" :: rest ->
    let (bytes, len, pos, lim) = count_case rest in
    pr_cres (u8_ncountmore (buffer bytes len) (zlen len) pos lim)
  | ["R"; hex; len; l1; l2] ->
    let bytes = bytes_of_hex hex and len = int_of_string len in
    check_len bytes len;
    let buf = buffer bytes len and l1 = parse_limit l1 and l2 = parse_limit l2 in
    let r1 = u8_ncountmore buf (zlen len) pos_zero l1 in
    let r12 = match r1 with
      | CRet (r, p) when iz r <> -1 -> pr_cres (u8_ncountmore buf (zlen len) p l2)
      | CRet _ -> "-"
      | _ -> "?" in
    let r2 = u8_ncountmore buf (zlen len) pos_zero l2 in
    pr_cres r1 ^ " ; " ^ r12 ^ " ; " ^ pr_cres r2
  | ["M"; hex] -> (match u8_mbswidth (buffer (bytes_of_hex hex) (-1)) with Some v -> string_of_int (iz v) | None -> "FAULT")
  | ["B"; hex; n] -> (match u8_byte2col (buffer (bytes_of_hex hex) (-1)) (zi (int_of_string n)) with Some v -> string_of_int (iz v) | None -> "FAULT")
  | ["K"; hex; c] -> (match u8_col2byte (buffer (bytes_of_hex hex) (-1)) (zi (int_of_string c)) with Some v -> string_of_int (iz v) | None -> "FAULT")
  | ["U"; cp; len; isnull] ->
    let len = int_of_string len in
    let (r, wr) = u8_put (isnull <> "0") (zi len) (zi (int_of_string cp)) in
    let fill = List.init len (fun _ -> 0xEE) in
    let content = match wr with
      | None -> fill
      | Some l -> let l = List.map iz l in l @ List.filteri (fun i _ -> i >= List.length l) fill in
    Printf.sprintf "%d %s" (iz r) (hex_of_bytes content)
  | ["S"; cp] -> string_of_int (iz (u8_seqlen (zi (int_of_string cp))))
  | ["W"; cp] -> (match u8_wcwidth (zi (int_of_string cp)) with Some w -> string_of_int (iz w) | None -> "FUEL")
  | _ -> failwith "case"

(* ---- oracle ---- *)
let ints s = List.map int_of_string (split_ws s)
let split_semi s = List.map String.trim (String.split_on_char ';' s)

(* expected values of the convenience wrappers, from the spec: they report a field of the
   position reached; on the error value the position is unconstrained, so nothing is demanded *)
let spec_pos buf lim =
  match spec_count (effective buf None Z0) pos_zero lim with
  | SErr -> None
  | SOk (_, p) -> Some p

let oracle line =
  let (c, o) =
    match String.index_opt line '|' with
    | Some i -> (String.sub line 0 i, String.trim (String.sub line (i + 1) (String.length line - i - 1)))
    | None -> failwith "oracle line" in
  let ok =
    match split_ws c with
    | ["T"] -> true    (* tables: compared with the translated ones by the correspondence check *)
    | ["P"; lo; hi] ->
      let lo = int_of_string lo and hi = int_of_string hi in
      let entries = List.filter (fun t -> t <> "@" && not (String.length t > 1 && String.sub t 0 2 = "h=")) (split_ws o) in
      let entries = List.map (fun e ->
          match String.split_on_char ':' e with
          | [cp; tup] -> (int_of_string cp, List.map int_of_string (String.split_on_char ',' tup))
          | _ -> failwith "entry") entries in
      let arr = Array.of_list entries in
      let k = ref 0 and good = ref (Array.length arr > 0 && fst arr.(0) = lo) in
      if !good then
        for cp = lo to hi - 1 do
          while !k + 1 < Array.length arr && fst arr.(!k + 1) <= cp do incr k done;
          (match snd arr.(!k) with
           | [n; r; ra; ab; ac; ag; aw; rb; bb; bc; bg; bw; rs; untouched; rn] ->
             let zcp = zi cp in
             if not (r = n && rn = n && rs = -1 && untouched = 1
                     && roundtrip_checkb zcp (zi n) (zi ra) (mkpos ab ac ag aw)
                     && roundtrip_checkb zcp (zi n) (zi rb) (mkpos bb bc bg bw))
             then good := false
           | _ -> good := false)
        done;
      !good
    | "C" :: rest ->
      let (bytes, len, pos, lim) = count_case rest in
      (match ints o with
       | [ret; b; cc; g; w] -> count_checkb (buffer bytes len) (zlen len) pos lim (zi ret) (mkpos b cc g w)
       | _ -> false)
    | ["R"; hex; len; l1; l2] ->
      let bytes = bytes_of_hex hex and len = int_of_string len in
      let buf = buffer bytes len and l1 = parse_limit l1 and l2 = parse_limit l2 in
      (match split_semi o with
       | [s1; s12; s2] ->
         (match ints s1, ints s2 with
          | [r1; b1; c1; g1; w1], [r2; b2; c2; g2; w2] ->
            let p1 = mkpos b1 c1 g1 w1 and p2 = mkpos b2 c2 g2 w2 in
            count_checkb buf (zlen len) pos_zero l1 (zi r1) p1
            && count_checkb buf (zlen len) pos_zero l2 (zi r2) p2
            && (if r1 = -1 then s12 = "-"
                else match ints s12 with
                  | [r12; b12; c12; g12; w12] ->
                    let p12 = mkpos b12 c12 g12 w12 in
                    count_checkb buf (zlen len) p1 l2 (zi r12) p12
                    && resume_checkb l1 l2 (zi r1) p1 (zi r12) p12 (zi r2) p2
                  | _ -> false)
          | _ -> false)
       | _ -> false)
    | ["M"; hex] ->
      (match spec_pos (buffer (bytes_of_hex hex) (-1)) None, ints o with
       | None, [_] -> true | Some p, [v] -> v = iz p.p_cols | _ -> false)
    | ["B"; hex; n] ->
      (match spec_pos (buffer (bytes_of_hex hex) (-1)) (Some (limit_bytes (zi (int_of_string n)))), ints o with
       | None, [_] -> true | Some p, [v] -> v = iz p.p_cols | _ -> false)
    | ["K"; hex; cl] ->
      (match spec_pos (buffer (bytes_of_hex hex) (-1)) (Some (limit_columns (zi (int_of_string cl)))), ints o with
       | None, [_] -> true | Some p, [v] -> v = iz p.p_bytes | _ -> false)
    | ["U"; cp; len; isnull] ->
      (* encoding: the return value is seqlen (or -1 when it does not fit, buffer untouched);
         the bytes themselves are judged through the round trip (case P) *)
      let len = int_of_string len and cp = zi (int_of_string cp) in
      let n = iz (u8_seqlen cp) in
      (match split_ws o with
       | [r; content] ->
         let r = int_of_string r and content = bytes_of_hex content in
         let fill = List.for_all (fun x -> x = 0xEE) in
         if isnull <> "0" then r = n && fill content
         else if len < n then r = -1 && fill content
         else r = n && fill (List.filteri (fun i _ -> i >= n) content)
       | _ -> false)
    | ["S"; cp] ->
      (match ints o with [v] -> v = iz (u8_seqlen (zi (int_of_string cp))) | _ -> false)
    | ["W"; cp] ->
      (* where the library documents a width (Utf8Spec.documented_widths) it must be that one *)
      (match ints o with [w] -> width_checkb (zi (int_of_string cp)) (zi w) | _ -> false)
    | _ -> false in
  if ok then "OK" else "BAD"

let () =
  let f = if Array.length Sys.argv > 1 && Sys.argv.(1) = "oracle" then oracle else model in
  iter_lines (fun l -> print_endline (try f l with Failure m -> "ERR " ^ m | Not_found -> "ERR parse" | Invalid_argument m -> "ERR " ^ m))
