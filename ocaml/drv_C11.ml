(* driver for C11.  Case line: "<sink> <op> ..." (see harness/C11.c for the op syntax); the
   destruction of the terminal (ODestroy) is appended to every case.  Observation: per op the delivered chunks,
   "c,c;c;;" (chunk = 'f' or 'd' for the sink, then hex, "-" = empty chunk; every op closed by ';').
   model mode prints the model's observation; oracle mode reads "<case> | <obs>" and prints
   OK or BAD according to the extracted checker [check] (OutBufSpec.v). *)
let ztab = Array.init 256 z_of_int
let hexval c = match c with
  | '0'..'9' -> Char.code c - 48 | 'a'..'f' -> Char.code c - 87 | 'A'..'F' -> Char.code c - 55
  | _ -> failwith "hex"
let bytes_of_hex s =
  if s = "-" || s = "" then [] else begin
    if String.length s land 1 = 1 then failwith "hex";
    let r = ref [] in
    for i = String.length s / 2 - 1 downto 0 do
      r := ztab.(16 * hexval s.[2*i] + hexval s.[2*i+1]) :: !r
    done; !r end
let hex_of_bytes b l =
  match l with
  | [] -> Buffer.add_char b '-'
  | _ -> List.iter (fun z -> Buffer.add_string b (Printf.sprintf "%02x" (int_of_z z))) l
let gen_bytes spec =
  let n, a = match String.split_on_char ':' spec with
    | [n; a] -> int_of_string n, int_of_string a | [n] -> int_of_string n, 0 | _ -> failwith "gen" in
  let r = ref [] in
  for i = n - 1 downto 0 do r := ztab.((a + 7 * i) mod 255 + 1) :: !r done; (!r, n)
let nul = ztab.(0)
let no_nul l = if List.exists (fun z -> z = Z0) l then failwith "nul in S/T operand" else l
let op_of_tok t =
  let rest = String.sub t 1 (String.length t - 1) in
  match t.[0] with
  | 'B' ->
    (* BX0/BX1/BX2: sizes near SIZE_MAX whose allocation fails; the model only needs "some
       non-negative size", OCaml's max_int stands for them *)
    if String.length rest > 0 && rest.[0] = 'X' then OSetBufFail (z_of_int max_int)
    else OSetBuf (z_of_int (int_of_string rest))
  | 'F' -> OFlush
  | 'X' -> OTeardown
  | 'W' -> (match String.split_on_char ':' rest with
      | [h; l] -> OWrite (bytes_of_hex h @ [nul], z_of_int (int_of_string l))
      | _ -> failwith "W")
  | 'R' -> let (b, n) = gen_bytes rest in OWrite (b @ [nul], z_of_int n)
  | 'S' -> OWritef (no_nul (bytes_of_hex rest))
  | 'Q' -> let (b, _) = gen_bytes rest in OWritef b
  | 'T' -> let b = no_nul (bytes_of_hex rest) in OWrite (b @ [nul], z_of_int (List.length b))
  | 'O' -> OSetFunc (rest <> "0")
  | 'D' -> OSetFd (rest <> "0")
  | _ -> failwith "op"
let parse_case line =
  match split_ws line with
  | sink :: toks ->
    let f, d = match sink with
      | "f" -> true, false | "d" | "z" -> false, true | "b" | "w" -> true, true | "n" -> false, false
      | _ -> failwith "sink" in
    (f, d, List.map op_of_tok toks @ [ODestroy])
  | [] -> failwith "case"
let pr_outs outs =
  let b = Buffer.create 256 in
  List.iter (fun d ->
      List.iteri (fun i (t, c) -> if i > 0 then Buffer.add_char b ',';
                   Buffer.add_char b (match t with SFunc -> 'f' | SFd -> 'd'); hex_of_bytes b c) d;
      Buffer.add_char b ';') outs;
  Buffer.contents b
let model line =
  let (f, d, ops) = parse_case line in
  match run (init f d) ops with
  | Ok (_, outs) -> pr_outs outs
  | Fault -> "FAULT"
  | OutOfFuel -> "OUTOFFUEL"
let parse_obs o =
  let o = String.trim o in
  let n = String.length o in
  if n = 0 || o.[n-1] <> ';' then failwith "obs";
  let groups = String.split_on_char ';' (String.sub o 0 (n - 1)) in
  let chunk c =
    if String.length c < 2 then failwith "chunk";
    let t = match c.[0] with 'f' -> SFunc | 'd' -> SFd | _ -> failwith "chunk tag" in
    (t, bytes_of_hex (String.sub c 1 (String.length c - 1))) in
  List.map (fun g -> if g = "" then [] else List.map chunk (String.split_on_char ',' g)) groups
let oracle line =
  match String.index_opt line '|' with
  | None -> "BAD no observation"
  | Some i ->
    let c = String.sub line 0 i and o = String.sub line (i + 1) (String.length line - i - 1) in
    let (f, d, ops) = parse_case c in
    (match (try Some (parse_obs o) with Failure _ -> None) with
     | None -> "BAD unparsable observation"
     | Some outs -> if check f d ops outs then "OK" else "BAD")
let () =
  let f = if Array.length Sys.argv > 1 && Sys.argv.(1) = "oracle" then oracle else model in
  iter_lines (fun l -> print_endline (try f l with Failure m -> "ERR " ^ m))
