(* driver for C01: the oracle compares the grid the implementation shows after every flush
   with the painter's-model composition [compose] of the window tree the implementation
   reports (public geometry / visibility / children queries), for the application content
   rebuilt from the scroll records. *)
let oracle_c01 (line : string) : string =
  let (c, o) = split_case_obs line in
  if String.length o >= 3 && (String.sub o 0 3 = "CRA" || String.sub o 0 3 = "ERR" || String.sub o 0 3 = "FAU") then "BAD the implementation crashed or the observation is malformed" else
  let _ = parse_case c in
  let recs = parse_obs o in
  let app = ref app_base in
  let bad = ref None in
  List.iteri (fun k r ->
      if r.kind = "F" && !bad = None then begin
        app := apply_srecs !app (field r "A");
        let t = parse_tree (field r "T") in
        let (nl, nc, g) = parse_grid (field r "G") in
        let Node (ri, _) = t in
        if iz ri.w_rect.lines <> nl || iz ri.w_rect.cols <> nc then bad := Some (Printf.sprintf "record %d: root size differs from the screen" k)
        else if not (c01_checkb !app t (zi nl) (zi nc) g) then bad := Some (Printf.sprintf "record %d: screen differs from compose" k)
      end) recs;
  match !bad with None -> "OK" | Some m -> "BAD " ^ m

let () = main oracle_c01
