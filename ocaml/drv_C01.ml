(* driver for C01: the oracle compares the grid the implementation shows after every flush
   with the painter's-model composition [compose] of the window tree the implementation
   reports (public geometry / visibility / children queries), for the application content
   rebuilt from the scroll records. *)
let oracle_c01 (line : string) : string =
  let (c, o) = split_case_obs line in
  if String.length o >= 3 && (String.sub o 0 3 = "CRA" || String.sub o 0 3 = "ERR" || String.sub o 0 3 = "FAU") then "BAD the implementation crashed or the observation is malformed" else
  let cs = parse_case c in
  let reqs = ref (restacks_per_flush cs) in
  let recs = parse_obs o in
  let app = ref app_base in
  let bad = ref None in
  List.iteri (fun k r ->
      if r.kind = "F" && !bad = None then begin
        app := apply_srecs !app (field r "A");
        let t = parse_tree (field r "T") in
        let rq = (match !reqs with x :: rest -> reqs := rest; x | [] -> []) in
        if not (has_reentrant_restack cs) && not (c01_restack_checkb rq (parse_tree (field r "U")) t) then
          bad := Some (Printf.sprintf "record %d: the z-order after the flush is not the queued restacks applied in request order" k);
        let (nl, nc, g) = parse_grid (field r "G") in
        let Node (ri, _) = t in
        if !bad <> None then ()
        else if iz ri.w_rect.lines <> nl || iz ri.w_rect.cols <> nc then bad := Some (Printf.sprintf "record %d: root size differs from the screen" k)
        else begin
          let dmg = parse_rects (field r "D") in
          let n = field r "N" in
          if String.length n <> 3 then bad := Some "flags"
          else if not (c01_pending_checkb !app t (zi nl) (zi nc) g dmg (n.[0] = '1') (n.[2] = '1')) then
            bad := Some (Printf.sprintf "record %d: a cell outside the pending damage differs from compose, or damage is pending without needs_expose/later" k)
        end
      end) recs;
  match !bad with None -> "OK" | Some m -> "BAD " ^ m

let () = main oracle_c01
