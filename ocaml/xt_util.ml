(* xt_util.ml -- shared by drv_C09 / drv_C10 / drv_C12 (textually included after `open M<id>`
   and zutil.ml): hex <-> list of Z, the compact pen syntax, printing of pens. *)
let hex_of_bytes (bs : z list) : string =
  match bs with
  | [] -> "-"
  | _ -> String.concat "" (List.map (fun b -> Printf.sprintf "%02x" (int_of_z b)) bs)
let bytes_of_hex (s : string) : z list =
  if s = "-" then [] else
    let n = String.length s / 2 in
    List.init n (fun i -> z_of_int (int_of_string ("0x" ^ String.sub s (2 * i) 2)))
let split_on c s = String.split_on_char c s
let attr_of_name = function
  | "fg" -> AFg | "bg" -> ABg | "b" -> ABold | "u" -> AUnder | "i" -> AItalic | "rv" -> AReverse
  | "strike" -> AStrike | "af" -> AAltfont | "blink" -> ABlink | "sizepos" -> ASizepos
  | s -> failwith ("attr " ^ s)
let name_of_attr = function
  | AFg -> "fg" | ABg -> "bg" | ABold -> "b" | AUnder -> "u" | AItalic -> "i" | AReverse -> "rv"
  | AStrike -> "strike" | AAltfont -> "af" | ABlink -> "blink" | ASizepos -> "sizepos"
let all_attrs_ml = [AFg; ABg; ABold; AUnder; AItalic; AReverse; AStrike; AAltfont; ABlink; ASizepos]
let parse_pen (s : string) =
  if s = "-" then empty_pen else
    List.fold_left (fun p item ->
        match split_on '=' item with
        | [name; v] ->
          let a = attr_of_name name in
          (match a with
           | AFg | ABg ->
             (match split_on '#' v with
              | [i] -> pset p a (Some (VCol (z_of_int (int_of_string i), None)))
              | [i; h] ->
                let c k = z_of_int (int_of_string ("0x" ^ String.sub h (2 * k) 2)) in
                pset p a (Some (VCol (z_of_int (int_of_string i), Some { rgb_r = c 0; rgb_g = c 1; rgb_b = c 2 })))
              | _ -> failwith "colour")
           | AUnder | AAltfont | ASizepos -> pset p a (Some (VInt (z_of_int (int_of_string v))))
           | _ -> pset p a (Some (VBool (int_of_string v <> 0))))
        | _ -> failwith "pen item") empty_pen (split_on ',' s)
let string_of_pen p =
  let items = List.filter_map (fun a ->
      match p a with
      | None -> None
      | Some v ->
        Some (name_of_attr a ^ "=" ^
              (match v with
               | VBool b -> if b then "1" else "0"
               | VInt n -> string_of_int (int_of_z n)
               | VCol (i, None) -> string_of_int (int_of_z i)
               | VCol (i, Some c) ->
                 Printf.sprintf "%d#%02x%02x%02x" (int_of_z i) (int_of_z c.rgb_r) (int_of_z c.rgb_g) (int_of_z c.rgb_b))))
      all_attrs_ml in
  if items = [] then "-" else String.concat "," items
let rec nat_of_int n = if n <= 0 then O else S (nat_of_int (n - 1))
let rec int_of_nat = function O -> 0 | S n -> 1 + int_of_nat n
let zi s = z_of_int (int_of_string s)
