(* zutil.ml -- textual prelude of every driver (after `open M<id>`): conversion between
   OCaml int and the extracted inductive Z/positive.  OCaml ints are 63-bit; all case
   values are far below that. *)
let rec pos_of_int n =
  if n = 1 then XH
  else if n land 1 = 1 then XI (pos_of_int (n lsr 1))
  else XO (pos_of_int (n lsr 1))
let z_of_int n =
  if n = 0 then Z0 else if n > 0 then Zpos (pos_of_int n) else Zneg (pos_of_int (- n))
let rec int_of_pos = function
  | XH -> 1 | XO p -> 2 * int_of_pos p | XI p -> 2 * int_of_pos p + 1
let int_of_z = function Z0 -> 0 | Zpos p -> int_of_pos p | Zneg p -> - (int_of_pos p)
let split_ws s = List.filter (fun x -> x <> "") (String.split_on_char ' ' s)
let iter_lines f =
  (try while true do f (input_line stdin) done with End_of_file -> ())
