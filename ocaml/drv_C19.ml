(* driver for C19.  Case line: operations "op:field:..." separated by blanks (see
   harness/C19.c).  model mode prints the model's observation; oracle mode reads
   "<case> | <obs>" and prints OK or BAD according to the extracted checker [check_case]
   (PenSpec.v): the dictionary specification run along the history, compared with the
   getters the implementation reported. *)
let attr_of_int = function
  | 1 -> FG | 2 -> BG | 3 -> BOLD | 4 -> UNDER | 5 -> ITALIC | 6 -> REVERSE | 7 -> STRIKE
  | 8 -> ALTFONT | 9 -> BLINK | 10 -> SIZEPOS | _ -> AOther
let pidx_of_int = function 0 -> P0 | 1 -> P1 | 2 -> P2 | _ -> failwith "pen index"
let dump_attrs = [FG; BG; BOLD; UNDER; ITALIC; REVERSE; STRIKE; ALTFONT; BLINK; SIZEPOS; AOther; AOther]
let hexval c = match c with
  | '0'..'9' -> Char.code c - 48 | 'a'..'f' -> Char.code c - 87 | 'A'..'F' -> Char.code c - 55
  | _ -> failwith "hex"
let str_of_hex s =
  if s = "-" || s = "" then [] else
    List.init (String.length s / 2) (fun i -> z_of_int (16 * hexval s.[2*i] + hexval s.[2*i+1]))
let ios = int_of_string
let op_of_tok t =
  match String.split_on_char ':' t with
  | ["sb"; p; a; v] -> OSetBool (pidx_of_int (ios p), attr_of_int (ios a), ios v <> 0)
  | ["si"; p; a; v] -> OSetInt (pidx_of_int (ios p), attr_of_int (ios a), z_of_int (ios v))
  | ["sc"; p; a; v] -> OSetColour (pidx_of_int (ios p), attr_of_int (ios a), z_of_int (ios v))
  | ["sr"; p; a; r; g; b] ->
    OSetRgb (pidx_of_int (ios p), attr_of_int (ios a),
             { cr = z_of_int (ios r); cg = z_of_int (ios g); cb = z_of_int (ios b) })
  | ["sd"; p; a; h] -> OSetDesc (pidx_of_int (ios p), attr_of_int (ios a), str_of_hex h)
  | ["ca"; p; a] -> OClearAttr (pidx_of_int (ios p), attr_of_int (ios a))
  | ["cl"; p] -> OClear (pidx_of_int (ios p))
  | ["cp"; d; s; ow] -> OCopy (pidx_of_int (ios d), pidx_of_int (ios s), ios ow <> 0)
  | ["ct"; d; s; a] -> OCopyAttr (pidx_of_int (ios d), pidx_of_int (ios s), attr_of_int (ios a))
  | ["cn"; d; s] -> OClone (pidx_of_int (ios d), pidx_of_int (ios s))
  | ["nw"; p] -> ONew (pidx_of_int (ios p))
  | _ -> failwith "op"
let target = function
  | OSetBool (p, _, _) | OSetInt (p, _, _) | OSetColour (p, _, _) | OSetRgb (p, _, _)
  | OSetDesc (p, _, _) | OClearAttr (p, _) | OClear p | ONew p -> p
  | OCopy (d, _, _) | OCopyAttr (d, _, _) | OClone (d, _) -> d
(* content of fresh memory: all ones (the harness makes ASan fill malloc'd blocks with 0xff) *)
let ones = z_of_int (-1)
let garbage =
  let c = { idx = ones; rgbv = { cr = z_of_int 255; cg = z_of_int 255; cb = z_of_int 255 }; v_idx = true; v_rgb = true } in
  let b = { bval = true; v_b = true } in
  { fg = c; bg = c; bold = b; under = { ival = ones; v_i = true }; italic = b; reverse = b; strike = b;
    altfont = { ival = ones; v_i = true }; blink = b; sizepos = { ival = z_of_int 3; v_i = true } }
let bit b = if b then '1' else '0'
let dump buf p =
  List.iter (fun a ->
      let c = get_rgb p a in
      Buffer.add_char buf (bit (has_attr p a)); Buffer.add_char buf (bit (get_bool p a));
      Buffer.add_char buf (bit (has_rgb p a)); Buffer.add_char buf (bit (nondefault_attr p a));
      Buffer.add_string buf (Printf.sprintf ",%d,%d,%02x%02x%02x/" (int_of_z (get_int p a)) (int_of_z (get_colour p a))
                               (int_of_z c.cr) (int_of_z c.cg) (int_of_z c.cb))) dump_attrs;
  Buffer.add_char buf (bit (is_nonempty p)); Buffer.add_char buf (bit (is_nondefault p))
let pens = [P0; P1; P2]
(* "hk:p" (extra reference dropped inside the next change handler) is not an operation of the
   model: event delivery is not modelled and it changes no getter; the model side prints the
   unchanged pen, the oracle skips the token and its group *)
let is_hk t = String.length t >= 3 && String.sub t 0 3 = "hk:"
let model line =
  let buf = Buffer.create 4096 in
  let st = ref (fun _ -> pen_new garbage) in
  List.iter (fun t ->
      if is_hk t then begin
        Buffer.add_string buf "r1=";
        dump buf (!st (pidx_of_int (ios (String.sub t 3 (String.length t - 3))))); Buffer.add_char buf ';'
      end else begin
        let o = op_of_tok t in
        let (st', r) = c_step garbage !st o in
        st := st';
        Buffer.add_string buf (if r then "r1=" else "r0=");
        dump buf (!st (target o)); Buffer.add_char buf ';'
      end) (split_ws line);
  Buffer.add_char buf 'F';
  List.iter (fun i -> dump buf (!st i); Buffer.add_char buf ';') pens;
  Buffer.add_char buf 'E';
  List.iter (fun i -> List.iter (fun j -> Buffer.add_char buf (bit (equiv (!st i) (!st j)))) pens) pens;
  Buffer.add_char buf ':';
  List.iter (fun i -> List.iter (fun j ->
      List.iter (fun a -> Buffer.add_char buf (bit (equiv_attr (!st i) (!st j) a))) dump_attrs) pens) pens;
  Buffer.contents buf
(* ---- parsing an observation ---- *)
let parse_dump s : pobs =
  let parts = Array.of_list (String.split_on_char '/' s) in
  if Array.length parts <> 13 then failwith "dump";
  let one k =
    match String.split_on_char ',' parts.(k) with
    | [bits; i; c; rgb] when String.length bits = 4 && String.length rgb = 6 ->
      let h n = z_of_int (16 * hexval rgb.[n] + hexval rgb.[n+1]) in
      { o_has = bits.[0] = '1'; o_bool = bits.[1] = '1'; o_int = z_of_int (ios i); o_col = z_of_int (ios c);
        o_hasrgb = bits.[2] = '1'; o_rgb = { cr = h 0; cg = h 2; cb = h 4 } }
    | _ -> failwith "dump entry" in
  let tbl = Array.init 12 one in
  fun a -> match a with
    | FG -> tbl.(0) | BG -> tbl.(1) | BOLD -> tbl.(2) | UNDER -> tbl.(3) | ITALIC -> tbl.(4)
    | REVERSE -> tbl.(5) | STRIKE -> tbl.(6) | ALTFONT -> tbl.(7) | BLINK -> tbl.(8) | SIZEPOS -> tbl.(9)
    | AOther -> if tbl.(10).o_has then tbl.(10) else tbl.(11)     (* either out-of-range code present => has *)
let idx_int = function P0 -> 0 | P1 -> 1 | P2 -> 2
let oracle line =
  match String.index_opt line '|' with
  | None -> "BAD no observation"
  | Some i ->
    let c = String.sub line 0 i and o = String.trim (String.sub line (i + 1) (String.length line - i - 1)) in
    let toks = split_ws c in
    let ops = List.map op_of_tok (List.filter (fun t -> not (is_hk t)) toks) in
    (try
       let groups0 = String.split_on_char ';' o in
       if List.length groups0 <> List.length toks + 4 then failwith "groups";
       let groups = List.filteri (fun i _ -> i >= List.length toks || not (is_hk (List.nth toks i))) groups0 in
       let nops = List.length ops in
       let rec take n l = if n = 0 then ([], l) else match l with x :: r -> let (a, b) = take (n-1) r in (x :: a, b) | [] -> failwith "take" in
       let (opg, rest) = take nops groups in
       let obs = List.map (fun g ->
           if String.length g < 3 || g.[0] <> 'r' || g.[2] <> '=' then failwith "op group";
           (g.[1] = '1', parse_dump (String.sub g 3 (String.length g - 3)))) opg in
       (match rest with
        | [f0; f1; f2; e] ->
          if f0.[0] <> 'F' || e.[0] <> 'E' then failwith "final";
          let fin = [| parse_dump (String.sub f0 1 (String.length f0 - 1)); parse_dump f1; parse_dump f2 |] in
          let m = String.sub e 1 9 in
          if check_case ops obs (fun i -> fin.(idx_int i)) (fun i j -> m.[3 * idx_int i + idx_int j] = '1')
          then "OK" else "BAD"
        | _ -> failwith "final groups")
     with Failure m -> "BAD unparsable observation (" ^ m ^ ")" | Invalid_argument m -> "BAD unparsable observation")
let () =
  let f = if Array.length Sys.argv > 1 && Sys.argv.(1) = "oracle" then oracle else model in
  iter_lines (fun l -> print_endline (try f l with Failure m -> "ERR " ^ m))
