(* driver for C03: no extension ops; see rb_common.ml for the case / observation format *)
let () = main ()
