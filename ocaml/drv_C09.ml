(* driver for C09.  case: "<lines> <cols> <slrm> <colon> <rgb> <op>..."; see harness/C09.c.
   model mode prints "I:<start bytes> <ret>:<bytes>..."; oracle mode reads "<case> | <obs>",
   interprets the implementation's bytes with the extracted VT and checks every request's
   effect with the extracted [oracle_walk]. *)
let maybe_of s = match int_of_string s with 0 -> MNo | 1 -> MYes | _ -> MMaybe
(* every op is a call of the public API of term.c *)
let parse_api (s : string) : api =
  match split_on ':' s with
  | ["G"; l; c] -> AGoto (zi l, zi c)
  | ["M"; d; r] -> AMove (zi d, zi r)
  | ["P"; h] -> let b = bytes_of_hex h in APrintn (b, z_of_int (List.length b))
  | ["p"; h] -> APrint (bytes_of_hex h)
  | ["f"; h] -> APrintf (bytes_of_hex h)
  | ["n"; h; len] -> APrintn (bytes_of_hex h, zi len)
  | ["E"; n; me] -> AErasech (zi n, maybe_of me)
  | ["K"] -> AClear
  | ["S"; t; l; h; w; d; r] -> AScrollrect ({ r_top = zi t; r_left = zi l; r_lines = zi h; r_cols = zi w }, zi d, zi r)
  | ["c"; p] -> AChpen (parse_pen p)
  | ["s"; p] -> ASetpen (parse_pen p)
  | ["O"; n] -> ASetOutputBuffer (zi n)
  | ["F"] -> AFlush
  | _ -> failwith "op"
let parse_case toks =
  match toks with
  | lines :: cols :: slrm :: colon :: rgb :: ops ->
    (* the driver takes DECLRMM for available when the reply says set (1) or reset (2) *)
    let caps = { cap_cursorshape = true; cap_slrm = (slrm = "1" || slrm = "2"); cap_colon = (colon <> "0"); cap_rgb8 = (rgb <> "0") } in
    let d = { x_caps = caps; x_mode = xdrv_new.x_mode; x_init = xdrv_new.x_init } in
    let t = { t_drv = d; t_started = true; t_pen = empty_pen; t_lines = zi lines; t_cols = zi cols } in
    (t, List.map parse_api ops)
  | _ -> failwith "case"
let model line =
  let (t, calls) = parse_case (split_ws line) in
  let b = Buffer.create 256 in
  Buffer.add_string b ("I:" ^ hex_of_bytes (render xt_start));
  let _ = List.fold_left (fun t a ->
      match t with
      | None -> Buffer.add_string b " FAULT"; None
      | Some t ->
        (match api_step t a with
         | None -> Buffer.add_string b " FAULT"; None
         | Some ((t', toks), res) ->
           (* the harness prints the boolean result of goto / scrollrect, 1 for void calls *)
           let r = (match res with Some v -> int_of_z v | None -> 1) in
           Buffer.add_string b (Printf.sprintf " %d:%s" r (hex_of_bytes (render toks)));
           Some t')) (Some t) calls in
  Buffer.contents b
let oracle walk line =
  match String.split_on_char '|' line with
  | [c; o] ->
    let (t, calls) = parse_case (split_ws c) in
    (match split_ws o with
     | init :: obs when String.length init >= 2 && String.sub init 0 2 = "I:" && List.length obs = List.length calls ->
       let start = bytes_of_hex (String.sub init 2 (String.length init - 2)) in
       let v0 = vt_run_bytes start (vt_init t.t_lines t.t_cols) in
       (* a terminal that answers "not recognised" or "permanently reset" has ignored start()'s CSI ?69h:
          it does not honour DECSLRM *)
       let slrm = List.nth (split_ws c) 2 in
       let v0 = if slrm = "0" || slrm = "4" then set_md v0 (md_set_lrmm v0.v_md false) else v0 in
       let v0 = vt_freeze (with_pattern v0) in
       let pairs = List.combine calls obs in
       let parse_ob ob = (match split_on ':' ob with [r; h] -> (r <> "0", bytes_of_hex h) | _ -> failwith "obs") in
       (* quiet calls (flush, set_output_buffer) must write nothing and are not requests *)
       if List.exists (fun (a, ob) -> req_of_api a = None && (not (quiet_api a) || snd (parse_ob ob) <> [])) pairs
       then "BAD quiet call wrote bytes"
       else begin
         let items = List.filter_map (fun (a, ob) ->
             match req_of_api a with
             | None -> None
             | Some q -> let (r, bytes) = parse_ob ob in Some ((q, r), bytes)) pairs in
         match walk O v0 items with
         | VOk n -> Printf.sprintf "OK %d" (int_of_nat n)
         | VOutOfRange i -> Printf.sprintf "OK range@%d" (int_of_nat i)
         | VBadAt i -> Printf.sprintf "BAD @%d" (int_of_nat i)
       end
     | _ -> "BAD obs")
  | _ -> "BAD line"
let () =
  let mode = if Array.length Sys.argv > 1 then Sys.argv.(1) else "model" in
  let f = match mode with "oracle" -> oracle oracle_walk | "oracle-excl" -> oracle oracle_walk_excl | _ -> model in
  iter_lines (fun l -> print_endline (try f l with Failure m -> (if mode <> "model" then "BAD ERR " else "ERR ") ^ m
                                                 | Invalid_argument m -> "BAD ERR " ^ m))
