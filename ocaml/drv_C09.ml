(* driver for C09.  case: "<lines> <cols> <slrm> <colon> <rgb> <op>..."; see harness/C09.c.
   model mode prints "I:<start bytes> <ret>:<bytes>..."; oracle mode reads "<case> | <obs>",
   interprets the implementation's bytes with the extracted VT and checks every request's
   effect with the extracted [oracle_walk]. *)
let parse_req (s : string) : req =
  match split_on ':' s with
  | ["G"; l; c] -> RGoto (zi l, zi c)
  | ["M"; d; r] -> RMove (zi d, zi r)
  | ["P"; h] -> RPrint (bytes_of_hex h)
  | ["E"; n; me] -> RErase (zi n, (match int_of_string me with 0 -> MNo | 1 -> MYes | _ -> MMaybe))
  | ["K"] -> RClear
  | ["S"; t; l; h; w; d; r] -> RScroll ({ r_top = zi t; r_left = zi l; r_lines = zi h; r_cols = zi w }, zi d, zi r)
  | ["c"; p] -> RChpen (parse_pen p)
  | ["s"; p] -> RSetpen (parse_pen p)
  | _ -> failwith "op"
let parse_case toks =
  match toks with
  | lines :: cols :: slrm :: colon :: rgb :: ops ->
    let caps = { cap_cursorshape = true; cap_slrm = (slrm <> "0"); cap_colon = (colon <> "0"); cap_rgb8 = (rgb <> "0") } in
    let d = { x_caps = caps; x_mode = xdrv_new.x_mode; x_init = xdrv_new.x_init } in
    let t = { t_drv = d; t_started = true; t_pen = empty_pen; t_lines = zi lines; t_cols = zi cols } in
    (t, List.map parse_req ops)
  | _ -> failwith "case"
let model line =
  let (t, reqs) = parse_case (split_ws line) in
  let b = Buffer.create 256 in
  Buffer.add_string b ("I:" ^ hex_of_bytes (render xt_start));
  let _ = List.fold_left (fun t q ->
      match t with
      | None -> Buffer.add_string b " FAULT"; None
      | Some t ->
        (match drv_req t q with
         | None -> Buffer.add_string b " FAULT"; None
         | Some ((t', ret), toks) ->
           Buffer.add_string b (Printf.sprintf " %d:%s" (if ret then 1 else 0) (hex_of_bytes (render toks)));
           Some t')) (Some t) reqs in
  Buffer.contents b
let oracle walk line =
  match String.split_on_char '|' line with
  | [c; o] ->
    let (t, reqs) = parse_case (split_ws c) in
    (match split_ws o with
     | init :: obs when String.length init >= 2 && String.sub init 0 2 = "I:" && List.length obs = List.length reqs ->
       let start = bytes_of_hex (String.sub init 2 (String.length init - 2)) in
       let v0 = vt_freeze (with_pattern (vt_run_bytes start (vt_init t.t_lines t.t_cols))) in
       let items = List.map2 (fun q ob ->
           match split_on ':' ob with
           | [r; h] -> ((q, r <> "0"), bytes_of_hex h)
           | _ -> failwith "obs") reqs obs in
       (match walk O v0 items with
        | VOk n -> Printf.sprintf "OK %d" (int_of_nat n)
        | VOutOfRange i -> Printf.sprintf "OK range@%d" (int_of_nat i)
        | VBadAt i -> Printf.sprintf "BAD @%d" (int_of_nat i))
     | _ -> "BAD obs")
  | _ -> "BAD line"
let () =
  let mode = if Array.length Sys.argv > 1 then Sys.argv.(1) else "model" in
  let f = match mode with "oracle" -> oracle oracle_walk | "oracle-excl" -> oracle oracle_walk_excl | _ -> model in
  iter_lines (fun l -> print_endline (try f l with Failure m -> (if mode <> "model" then "BAD ERR " else "ERR ") ^ m
                                                 | Invalid_argument m -> "BAD ERR " ^ m))
