(* driver for C02: hostile expose handlers.  The oracle looks at what the implementation's
   flush changed on the screen: every changed cell must lie in the damage handed to the root,
   be owned (in the composition of the reported tree) by some window, and show what THAT
   window draws at the cell's position relative to it; and the rectangles handed to the
   handlers must lie within their windows and never overlap for one window in one flush. *)
let oracle_c02 (line : string) : string =
  let (c, o) = split_case_obs line in
  if String.length o >= 3 && (String.sub o 0 3 = "CRA" || String.sub o 0 3 = "ERR" || String.sub o 0 3 = "FAU") then "BAD the implementation crashed or the observation is malformed" else
  let cs = parse_case c in
  let recs = parse_obs o in
  let app = ref app_base in
  let bad = ref None in
  List.iteri (fun k r ->
      if r.kind = "F" && !bad = None then begin
        app := apply_srecs !app (field r "A");
        let t = parse_tree (field r "T") in
        let (nl, nc, after) = parse_grid (field r "G") in
        let (nl', nc', before) = parse_grid (field r "B") in
        let log = parse_xlog (field r "X") in
        let damage = List.filter_map (fun (id, rc) -> if iz id = 0 then Some rc else None) log in
        let rec tree_rects (Node (i, ch)) = (iz i.w_id, i.w_rect) :: List.concat_map tree_rects ch in
        if nl <> nl' || nc <> nc' then bad := Some (Printf.sprintf "record %d: grid sizes" k)
        else if has_tree_change cs then begin
          (* the tree the cells were drawn under is not the tree reported after the flush; what can be
             demanded: a window that moved itself (and nothing else changed) is protected where it is now *)
          let u = parse_tree (field r "U") in
          let ru = tree_rects u and rt = tree_rects t in
          let moved = List.filter (fun (id, rc) -> match List.assoc_opt id ru with Some rc' -> rc' <> rc | None -> false) rt in
          let same_ids = List.map fst ru = List.map fst rt in
          (* windows hidden by another window's handler and never shown by one, the hider not below them *)
          let rec anc_of (Node (i, ch)) w acc = if iz i.w_id = w then Some acc else
              List.fold_left (fun r c -> match r with Some _ -> r | None -> anc_of c w (iz i.w_id :: acc)) None ch in
          let shown_by_handler w = List.exists (fun (_, acts) -> List.exists (function RA (RShow x) -> iz x = w | _ -> false) acts) cs.racts2 in
          let hides = List.concat_map (fun (h, acts) -> List.filter_map (function
              | RA (RHide w) when not (shown_by_handler (iz w))
                                  && (match anc_of u h [] with Some a -> not (List.mem (iz w) a) | None -> false) -> Some (zi h, w)
              | _ -> None) acts) cs.racts2 in
          if not (has_nested_flush cs) && not (c02_hide_order_checkb hides log) then
            bad := Some (Printf.sprintf "record %d: a window was handed a rectangle after another window's handler had hidden it" k)
          else
          match moved with
          | [(w, _)] when same_ids && List.length damage = 1 && List.exists (fun (id, _) -> iz id = w) log
                          && List.for_all (fun (id, acts) -> List.for_all (function RGeom (x, _, _) -> iz x = id | RA (RExpose _) -> true | _ -> false) acts) cs.racts2 ->
            if not (c02_selfmove_checkb u t (zi w) (zi nl) (zi nc) before after) then
              bad := Some (Printf.sprintf "record %d: a lower layer drew into cells of window %d, which moved there from inside its own expose handler (the mask must be where the window is now)" k w)
          | _ -> ()
        end
        else if not (c02_cells_checkb !app t (zi nl) (zi nc) before after damage) then
          bad := Some (Printf.sprintf "record %d: a cell changed that the drawing window does not own" k)
        else if not (c02_exact_checkb !app (progs_fn cs) t (zi nl) (zi nc) before after log) then
          bad := Some (Printf.sprintf "record %d: a cell does not show what its owner's program alone leaves there" k)
        else if not (has_restack cs || has_nested_flush cs) && not (c02_within_pending_checkb (zi 0) (parse_rects (field r "P")) log) then
          bad := Some (Printf.sprintf "record %d: the root was handed a rectangle that was not damage" k)
        else if not (if has_nested_flush cs then c02_rects_in_checkb t log else c02_rects_checkb t log) then
          bad := Some (Printf.sprintf "record %d: a handler was handed a rectangle outside its window or overlapping another" k)
      end) recs;
  match !bad with None -> "OK" | Some m -> "BAD " ^ m

let () = main oracle_c02
