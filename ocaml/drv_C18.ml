(* driver for C18: case line as for C17 (harness/loopharness.h) with the actions
   l<fl>:<cb> wi<fd>:<cond>:<fl>:<cb> ws<sig>:<fl>:<cb> c<id> e<n> k<sig> - and the ops r0 o
   R<fd>:<revents> K<sig>, the action s (tickit_stop) and the op u<k> (tickit_run, stopped by the
   harness in its k-th ppoll at the latest).  A case that starts with the token F runs the self-pipe fallback under
   a custom loop (model LoopPipeDefs.f_run, oracle LoopPipeSpec.fb_checkb and LoopPipeSnap.yspec_checkb; ops r0 and B<sig>).  model = LoopSigDefs.srun fixed_cfg (VERIF_C18_PINNED=1: the
   pinned behaviour of defects #24/#25); oracle = LoopSigSpec.xspec_checkb. *)
let zi = z_of_int
let rec nat_of_int n = if n <= 0 then O else S (nat_of_int (n - 1))
let fuel = nat_of_int 5000
let ints s = List.map int_of_string (String.split_on_char ':' s)
let tl s k = String.sub s k (String.length s - k)
let ub fl = fl land 2 <> 0
let action_of a =
  if a = "-" then Some SNop else
  match a.[0] with
  | 'l' -> (match ints (tl a 1) with [fl; cb] -> Some (SLater (ub fl, zi cb)) | _ -> failwith "l")
  | 'w' ->
    (match a.[1], ints (tl a 2) with
     | 'i', [fd; cond; fl; cb] -> Some (SIo (zi fd, zi cond, ub fl, zi cb))
     | 's', [sg; fl; cb] -> Some (SSig (zi sg, ub fl, zi cb))
     | _ -> failwith "w")
  | 'c' when String.length a > 1 && a.[1] <> 'b' -> Some (SCancel (zi (int_of_string (tl a 1))))
  | 'e' -> Some (SErrno (zi (int_of_string (tl a 1))))
  | 'k' -> Some (SRaise (zi (int_of_string (tl a 1))))
  | 's' when String.length a = 1 -> Some SStop
  | _ -> None
let parse_case line =
  let cbs = Hashtbl.create 8 in
  let ops = ref [] in
  List.iter (fun tok ->
      if tok = "F" then () else
      if String.length tok > 2 && tok.[0] = 'c' && tok.[1] = 'b' then begin
        match String.index_opt tok '=' with
        | Some i ->
          let k = int_of_string (String.sub tok 2 (i - 2)) in
          let acts = List.filter (fun x -> x <> "") (String.split_on_char ',' (tl tok (i + 1))) in
          Hashtbl.replace cbs k (List.map (fun a -> match action_of a with Some x -> x | None -> failwith ("act " ^ a)) acts)
        | None -> failwith "cb"
      end else
        match action_of tok with
        | Some a -> ops := SAct a :: !ops
        | None ->
          (match tok.[0] with
           | 'r' -> if tl tok 1 <> "0" then failwith "r"; ops := STick false :: !ops
           | 'o' -> ops := STick true :: !ops
           | 'R' -> (match ints (tl tok 1) with [fd; rv] -> ops := SReady (zi fd, zi rv) :: !ops | _ -> failwith "R")
           | 'K' -> ops := SArrive (zi (int_of_string (tl tok 1))) :: !ops
           | 'u' -> ops := SRunLoop (nat_of_int (max 1 (int_of_string (tl tok 1)))) :: !ops
           | _ -> failwith ("op " ^ tok)))
    (split_ws line);
  let env z = try Hashtbl.find cbs (int_of_z z) with Not_found -> [] in
  (env, List.rev !ops)
let kind_of_int = function 0 -> KTimer | 1 -> KLater | 2 -> KIo | 3 -> KSig | 4 -> KProc | _ -> failwith "kind"
let int_of_kind = function KTimer -> 0 | KLater -> 1 | KIo -> 2 | KSig -> 3 | KProc -> 4
let pr_obs l =
  if l = [] then "-" else
  String.concat " " (List.map (function
      | OPoll m -> Printf.sprintf "p%d" (int_of_z m)
      | OEv e -> Printf.sprintf "e%d:%d:%d:%d:%d:%d" (int_of_z e.e_id) (int_of_kind e.e_kind) (int_of_z e.e_flags)
                   (int_of_z e.e_iter) (int_of_z e.e_now) (int_of_z e.e_x)) l)
let parse_obs s =
  List.map (fun tok ->
      match tok.[0] with
      | 'p' -> OPoll (zi (int_of_string (tl tok 1)))
      | 'e' -> (match ints (tl tok 1) with
          | [id; k; fl; it; nw; x] -> OEv { e_id = zi id; e_kind = kind_of_int k; e_flags = zi fl; e_iter = zi it; e_now = zi nw; e_x = zi x }
          | _ -> failwith "event")
      | _ -> failwith ("obs " ^ tok))
    (List.filter (fun x -> x <> "-") (split_ws s))
(* ---- cases that start with F: the self-pipe fallback under a custom loop (LoopPipeDefs) *)
let is_fallback line = match split_ws line with "F" :: _ -> true | _ -> false
let parse_fcase line =
  (* B<sig> is only meaningful here; it is parsed before the common parser sees the line *)
  let toks = split_ws line in
  let plain = String.concat " " (List.map (fun t -> if t.[0] = 'B' then "K" ^ tl t 1 else t) toks) in
  let (env, ops) = parse_case plain in
  (env, List.map (function SArrive sg -> FBetween sg | SAct a -> FAct a | STick false -> FTick | _ -> failwith "not a fallback op") ops)
let drain_late = (try Sys.getenv "VERIF_C18_DRAINLATE" = "1" with Not_found -> false)
let cfg = if (try Sys.getenv "VERIF_C18_PINNED" = "1" with Not_found -> false) then pinned_cfg
  else if (try Sys.getenv "VERIF_C18_STOPEARLY" = "1" with Not_found -> false) then stop_early_cfg else fixed_cfg
let model line =
  if is_fallback line then begin
    let (env, ops) = parse_fcase line in
    match f_run drain_late env fuel ops with
    | Some l -> pr_obs l
    | None -> "NONE fuel exhausted or fault"
  end else
  let (env, ops) = parse_case line in
  match srun cfg env fuel ops with
  | Some l -> pr_obs l
  | None -> "NONE fuel exhausted or fault"
let oracle line =
  match String.index_opt line '|' with
  | Some i ->
    let c = String.sub line 0 i and o = tl line (i + 1) in
    if is_fallback c then begin
      let (env, ops) = parse_fcase c in
      match (try Some (parse_obs o) with _ -> None) with
      | None -> "BAD unreadable observation"
      | Some obs ->
        if not (fb_checkb env ops obs) then "BAD a delivered signal did not reach its watchers in time (or a watcher ran without its signal)"
        else if yspec_checkb env ops obs then "OK" else "BAD differs from the fallback's snapshot specification: " ^ pr_obs (yspec_run env ops)
    end else
    let (env, ops) = parse_case c in
    (match (try Some (parse_obs o) with _ -> None) with
     | None -> "BAD unreadable observation"
     | Some obs -> if xspec_checkb env ops obs then "OK" else "BAD differs from the specification: " ^ pr_obs (xspec_run env ops))
  | None -> "BAD"
let () =
  let f = if Array.length Sys.argv > 1 && Sys.argv.(1) = "oracle" then oracle else model in
  iter_lines (fun l -> print_endline (try f l with Failure m -> "ERR " ^ m | Not_found -> "ERR nf" | Invalid_argument m -> "ERR " ^ m))
