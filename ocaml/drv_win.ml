(* drv_win.ml -- shared part of the drivers of C01, C02, C14, C15: parsing of case lines and
   of observation records, printing of the model's observations in the harness's format.
   (Textually included after the extracted module and zutil.ml.) *)
let zi = z_of_int and iz = int_of_z
let mkrect t l h w = { top = zi t; left = zi l; lines = zi h; cols = zi w }

type header = { tk : char; nl : int; nc : int; pol : string }

type item =
  | Op of op
  | Key
  | Mouse of int * int * int * int

type case = {
  hdr : header;
  progs : (int * dop list) list;
  claims : (int * int) list;
  mus : (int * (int * int * int)) list;
  racts : (int * ract list) list;
  racts2 : (int * ract2 list) list;      (* expose handlers' calls including flush / set_geometry; [racts] = those without *)
  facts : (int * ract list) list;        (* calls of the focus handler, made when the window itself is told IN *)
  gacts : (int * ract list) list;        (* calls of the geomchange handler *)
  fcacts : (int * ract list) list;       (* calls of the focus handler, made when the window is told IN about a child *)
  items : item list;
}

let ints l = List.map int_of_string l
let rec take n l = if n = 0 then [] else match l with x :: r -> x :: take (n - 1) r | [] -> failwith "short"
let rec drop n l = if n = 0 then l else match l with _ :: r -> drop (n - 1) r | [] -> failwith "short"

let parse_dop toks =
  match toks with
  | "p" :: r -> (DPaint, r)
  | "k" :: r -> (DClear, r)
  | "t" :: a :: b :: c :: r -> (DText (zi (int_of_string a), zi (int_of_string b), zi (int_of_string c)), r)
  | "e" :: a :: b :: c :: r -> (DErase (zi (int_of_string a), zi (int_of_string b), zi (int_of_string c)), r)
  | "s" :: a :: b :: c :: r -> (DSkip (zi (int_of_string a), zi (int_of_string b), zi (int_of_string c)), r)
  | "h" :: a :: b :: c :: r -> (DHline (zi (int_of_string a), zi (int_of_string b), zi (int_of_string c)), r)
  | "v" :: a :: b :: c :: r -> (DVline (zi (int_of_string a), zi (int_of_string b), zi (int_of_string c)), r)
  | "c" :: a :: b :: r -> (DChar (zi (int_of_string a), zi (int_of_string b)), r)
  | "r" :: a :: b :: c :: d :: r ->
    (DEraseRect (mkrect (int_of_string a) (int_of_string b) (int_of_string c) (int_of_string d)), r)
  | _ -> failwith "dop"

let parse_case (line : string) : case =
  let toks = split_ws line in
  match toks with
  | "W" :: tk :: nl :: nc :: pol :: rest ->
    let hdr = { tk = tk.[0]; nl = int_of_string nl; nc = int_of_string nc; pol } in
    let extra : (int * ract2) list ref = ref [] in
    let progs = ref [] and claims = ref [] and mus = ref [] and racts = ref [] and racts2 = ref [] and facts = ref [] and gacts = ref [] and fcacts = ref [] and items = ref [] in
    let b x = x <> 0 in
    let rec go toks =
      match toks with
      | [] -> ()
      | "PR" :: id :: n :: r ->
        let n = int_of_string n in
        let rec dops k toks acc = if k = 0 then (List.rev acc, toks) else
            let (d, toks') = parse_dop toks in dops (k - 1) toks' (d :: acc) in
        let (ds, r') = dops n r [] in
        let id = int_of_string id in
        let old = try List.assoc id !progs with Not_found -> [] in
        progs := (id, old @ ds) :: List.remove_assoc id !progs; go r'
      | "BR" :: _ :: _ :: r -> go r   (* savepen / save brackets around a handler's drawing: balanced, and the
                                         handlers neither clip, translate nor mask, so they change nothing (C02_brackets_neutral) *)
      | (("RA" | "FA" | "GA" | "FC") as kind) :: id :: n :: r ->
        let racts = (match kind with "RA" -> racts | "FA" -> facts | "FC" -> fcacts | _ -> gacts) in
        let n = int_of_string n in
        let rec acts k toks acc = if k = 0 then (List.rev acc, toks) else
            match toks with
            | "ea" :: w :: r' -> acts (k - 1) r' (RExpose (zi (int_of_string w), None) :: acc)
            | "ex" :: w :: t :: l :: h :: c :: r' ->
              acts (k - 1) r' (RExpose (zi (int_of_string w), Some (mkrect (int_of_string t) (int_of_string l) (int_of_string h) (int_of_string c))) :: acc)
            | "sh" :: w :: r' -> acts (k - 1) r' (RShow (zi (int_of_string w)) :: acc)
            | "hi" :: w :: r' -> acts (k - 1) r' (RHide (zi (int_of_string w)) :: acc)
            | "ra" :: w :: r' -> acts (k - 1) r' (RRestack (HRaise, zi (int_of_string w)) :: acc)
            | "rf" :: w :: r' -> acts (k - 1) r' (RRestack (HRaiseFront, zi (int_of_string w)) :: acc)
            | "lo" :: w :: r' -> acts (k - 1) r' (RRestack (HLower, zi (int_of_string w)) :: acc)
            | "lb" :: w :: r' -> acts (k - 1) r' (RRestack (HLowerBack, zi (int_of_string w)) :: acc)
            | "xc" :: w :: r' -> acts (k - 1) r' (RClose (zi (int_of_string w)) :: acc)
            | "xd" :: w :: r' -> acts (k - 1) r' (RDestroy (zi (int_of_string w)) :: acc)
            | "fl" :: _ :: r' when kind = "RA" -> extra := (List.length acc, RFlush) :: !extra; acts (k - 1) r' acc
            | "rg" :: w :: t :: l :: h :: c :: r' when kind = "RA" ->
              extra := (List.length acc, RGeom (zi (int_of_string w), mkrect (int_of_string t) (int_of_string l) (int_of_string h) (int_of_string c), true)) :: !extra;
              acts (k - 1) r' acc
            | _ -> failwith "ract" in
        extra := [];
        let (a, r') = acts n r [] in
        (* the full list, with the flush / set_geometry calls at their places *)
        let a2 =
          let ex = List.rev !extra in
          let rec weave i l ex = match ex with
            | (pos, x) :: ex' when pos = i -> x :: weave i l ex'
            | _ -> (match l with [] -> [] | y :: l' -> RA y :: weave (i + 1) l' ex) in
          weave 0 a ex in
        if kind = "RA" then begin
          let id' = int_of_string id in
          let old2 = try List.assoc id' !racts2 with Not_found -> [] in
          racts2 := (id', old2 @ a2) :: List.remove_assoc id' !racts2
        end;
        let id = int_of_string id in
        let old = try List.assoc id !racts with Not_found -> [] in
        racts := (id, old @ a) :: List.remove_assoc id !racts; go r'
      | "CL" :: id :: m :: r -> claims := (int_of_string id, int_of_string m) :: !claims; go r
      | "MU" :: id :: c :: a :: t :: r ->
        mus := (int_of_string id, (int_of_string c, int_of_string a, int_of_string t)) :: !mus; go r
      | "N" :: r -> (match ints (take 7 r) with
          | [id; pid; t; l; h; w; fl] ->
            items := Op (ONew (zi id, zi pid, mkrect t l h w, b (fl land 1), b (fl land 2), b (fl land 4), b (fl land 8))) :: !items
          | _ -> failwith "N"); go (drop 7 r)
      | "X" :: id :: r -> items := Op (OClose (zi (int_of_string id))) :: !items; go r
      | "S" :: id :: r -> items := Op (OShow (zi (int_of_string id))) :: !items; go r
      | "H" :: id :: r -> items := Op (OHide (zi (int_of_string id))) :: !items; go r
      | "R" :: id :: r -> items := Op (ORestack (HRaise, zi (int_of_string id))) :: !items; go r
      | "RF" :: id :: r -> items := Op (ORestack (HRaiseFront, zi (int_of_string id))) :: !items; go r
      | "L" :: id :: r -> items := Op (ORestack (HLower, zi (int_of_string id))) :: !items; go r
      | "LB" :: id :: r -> items := Op (ORestack (HLowerBack, zi (int_of_string id))) :: !items; go r
      | "G" :: r -> (match ints (take 6 r) with
          | [id; t; l; h; w; ex] -> items := Op (OGeom (zi id, mkrect t l h w, b ex)) :: !items
          | _ -> failwith "G"); go (drop 6 r)
      | "MV" :: r -> (match ints (take 4 r) with
          | [id; t; l; ex] -> items := Op (OMove (zi id, zi t, zi l, b ex)) :: !items
          | _ -> failwith "MV"); go (drop 4 r)
      | "RZ" :: r -> (match ints (take 4 r) with
          | [id; h; w; ex] -> items := Op (OResize (zi id, zi h, zi w, b ex)) :: !items
          | _ -> failwith "RZ"); go (drop 4 r)
      | "E" :: r -> (match ints (take 5 r) with
          | [id; t; l; h; w] -> items := Op (OExpose (zi id, Some (mkrect t l h w))) :: !items
          | _ -> failwith "E"); go (drop 5 r)
      | "EA" :: id :: r -> items := Op (OExpose (zi (int_of_string id), None)) :: !items; go r
      | "F" :: r -> items := Op OFlush :: !items; go r
      | "SC" :: r -> (match ints (take 3 r) with
          | [id; d; rw] -> items := Op (OScroll (zi id, zi d, zi rw)) :: !items
          | _ -> failwith "SC"); go (drop 3 r)
      | "SK" :: r -> (match ints (take 3 r) with
          | [id; d; rw] -> items := Op (OScrollKids (zi id, zi d, zi rw)) :: !items
          | _ -> failwith "SK"); go (drop 3 r)
      | "SR" :: r -> (match ints (take 7 r) with
          | [id; t; l; h; w; d; rw] -> items := Op (OScrollRect (zi id, mkrect t l h w, zi d, zi rw)) :: !items
          | _ -> failwith "SR"); go (drop 7 r)
      | "TR" :: a :: c :: r -> items := Op (OTermResize (zi (int_of_string a), zi (int_of_string c))) :: !items; go r
      | "TF" :: id :: r -> items := Op (OFocus (zi (int_of_string id))) :: !items; go r
      | "CP" :: id :: l :: c :: r ->
        items := Op (OCurPos (zi (int_of_string id), zi (int_of_string l), zi (int_of_string c))) :: !items; go r
      | "CV" :: id :: v :: r -> items := Op (OCurVis (zi (int_of_string id), b (int_of_string v))) :: !items; go r
      | "CS" :: id :: v :: r -> items := Op (OCurShape (zi (int_of_string id), zi (int_of_string v))) :: !items; go r
      | "CB" :: id :: v :: r -> items := Op (OCurBlink (zi (int_of_string id), b (int_of_string v))) :: !items; go r
      | "FN" :: id :: v :: r -> items := Op (ONotify (zi (int_of_string id), b (int_of_string v))) :: !items; go r
      | "ST" :: id :: v :: r -> items := Op (OSteal (zi (int_of_string id), b (int_of_string v))) :: !items; go r
      | "K" :: r -> items := Key :: !items; go r
      | "MS" :: t :: bt :: l :: c :: r ->
        items := Mouse (int_of_string t, int_of_string bt, int_of_string l, int_of_string c) :: !items; go r
      | t :: _ -> failwith ("op " ^ t)
    in
    go rest;
    { hdr; progs = !progs; claims = !claims; mus = !mus; racts = !racts; racts2 = !racts2; facts = !facts; gacts = !gacts; fcacts = !fcacts; items = List.rev !items }
  | _ -> failwith "header"

(* for the k-th flush of a case: the restack requests made since the previous flush, in order; and whether
   any handler re-enters with a restack *)
let restacks_per_flush (c : case) : (hchange * z) list list =
  let acc = ref [] and cur = ref [] and made = Hashtbl.create 16 in
  List.iter (function
      | Op (ONew (id, _, _, _, _, _, _)) -> Hashtbl.replace made (iz id) ()
      | Op (ORestack (k, id)) -> if Hashtbl.mem made (iz id) then cur := (k, id) :: !cur
      | Op OFlush -> acc := List.rev !cur :: !acc; cur := []
      | _ -> ()) c.items;
  List.rev !acc
let has_reentrant_restack (c : case) =
  List.exists (fun (_, acts) -> List.exists (function RRestack _ | RClose _ | RDestroy _ -> true | _ -> false) acts) c.racts
let has_restack (c : case) =
  has_reentrant_restack c || List.exists (function Op (ORestack _) -> true | _ -> false) c.items

let oracle_of_policy (pol : string) =
  match pol.[0] with
  | 'A' -> pol_accept
  | 'R' -> pol_refuse
  | 'F' -> pol_fullwidth
  | 'S' -> pol_script (List.init (String.length pol - 1) (fun i -> pol.[i + 1] = '1'))
  | _ -> pol_mock

let has_flush_or_geom (c : case) =
  List.exists (fun (_, acts) -> List.exists (function RA _ -> false | _ -> true) acts) c.racts2
(* calls that change the tree while the flush walks it *)
let has_tree_change (c : case) =
  List.exists (fun (_, acts) -> List.exists (function
      | RA (RShow _ | RHide _ | RRestack _ | RClose _ | RDestroy _) | RGeom _ -> true
      | _ -> false) acts) c.racts2
let has_nested_flush (c : case) =
  List.exists (fun (_, acts) -> List.exists (function RFlush -> true | _ -> false) acts) c.racts2
let racts2_fn (c : case) : z -> ract2 list =
  fun id -> try List.assoc (iz id) c.racts2 with Not_found -> []
let racts_fn (c : case) : z -> ract list =
  fun id -> try List.assoc (iz id) c.racts with Not_found -> []

let progs_fn (c : case) : z -> dop list =
  fun id -> try List.assoc (iz id) c.progs with Not_found -> [DPaint]

(* which defects the model should exhibit (default: none, i.e. the repaired code) *)
let cfg =
  let s = try Sys.getenv "WIN_DEFECTS" with Not_found -> "" in
  let has k = List.mem k (String.split_on_char ',' s) in
  { d_scroll_noclip = has "18"; d_focus_nolost = has "19"; d_key_twice = has "20"; d_flush_noclip = has "27"; d_notify_noout = has "28"; d_chain_norestore = has "29"; d_route_unsafe = has "30"; d_drag_stale = has "21" }

(* ---------------------------------------------------------------- printing *)
let buf = Buffer.create 4096
let pr fmt = Printf.bprintf buf fmt

let rec pr_tree (t : wtree) =
  let Node (i, ch) = t in
  let fl = (if i.w_vis then 1 else 0) lor (if i.w_steal then 2 else 0) lor (if i.w_notify then 4 else 0)
           lor (if i.w_focused then 8 else 0) lor (if i.w_cvis then 16 else 0) in
  let r = i.w_rect in
  pr "%d:%d:%d:%d:%d:%d:%d:%d:%d:%d:%d[" (iz i.w_id) (iz r.top) (iz r.left) (iz r.lines) (iz r.cols) fl
    (match i.w_fchild with Some k -> iz k | None -> -1) (iz i.w_cline) (iz i.w_ccol) (iz i.w_cshape) (iz i.w_cblink);
  List.iter pr_tree ch;
  pr "]"

(* a line cell (content 200 + segment bits 1..15) is shown as one of 15 punctuation characters *)
let line_chars = "!\"#$%&'()*+,-{}"
let cell_char cp =
  if cp = 32 then '.' else if cp > 200 && cp <= 215 then line_chars.[cp - 201]
  else if cp < 33 || cp > 126 then '~' else Char.chr cp

let pr_grid (tm : term) =
  let nl = iz tm.t_lines and nc = iz tm.t_cols in
  for l = 0 to nl - 1 do
    if l > 0 then Buffer.add_char buf '/';
    for c = 0 to nc - 1 do
      Buffer.add_char buf (cell_char (iz (tm.t_grid (zi l, zi c))))
    done
  done

let pr_xlog (lg : (z * rect) list) =
  if lg = [] then pr "-" else
    List.iteri (fun k (id, r) ->
        pr "%s%d:%d,%d,%d,%d" (if k > 0 then ";" else "") (iz id) (iz r.top) (iz r.left) (iz r.lines) (iz r.cols)) lg

let pr_cursor (tm : term) =
  if tm.t_cvis then pr " C=1,%d,%d,%d,%d" (iz tm.t_cline) (iz tm.t_ccol) (iz tm.t_cshape) (iz tm.t_cblink)
  else pr " C=0"

let pr_fevs (evs : ((z * bool) * z) list) =
  if evs = [] then pr "-" else
    List.iteri (fun k ((rid, dir), wid) ->
        pr "%s%d%c%d" (if k > 0 then ";" else "") (iz rid) (if dir then '+' else '-') (iz wid)) evs

(* ---------------------------------------------------------------- observation records *)
type wrec = {
  kind : string;                       (* F, TF, K, MS *)
  fields : (string * string) list;     (* T=, B=, G=, X=, C=, E=, L=, A= *)
}

let parse_obs (s : string) : wrec list =
  let toks = split_ws s in
  let rec go toks cur acc =
    match toks with
    | [] -> List.rev (match cur with Some r -> { r with fields = List.rev r.fields } :: acc | None -> acc)
    | t :: rest ->
      (match String.index_opt t '=' with
       | Some k when k >= 1 && k <= 2 ->
         let key = String.sub t 0 k and v = String.sub t (k + 1) (String.length t - k - 1) in
         (match cur with
          | Some r -> go rest (Some { r with fields = (key, v) :: r.fields }) acc
          | None -> failwith "field before record")
       | _ ->
         let acc = match cur with Some r -> { r with fields = List.rev r.fields } :: acc | None -> acc in
         go rest (Some { kind = t; fields = [] }) acc)
  in
  if s = "-" || s = "" then [] else go toks None []

let field r k = try List.assoc k r.fields with Not_found -> failwith ("missing field " ^ k)

(* tree dump parser *)
let parse_tree (s : string) : wtree =
  let pos = ref 0 in
  let n = String.length s in
  let num () =
    let st = !pos in
    if !pos < n && s.[!pos] = '-' then incr pos;
    while !pos < n && s.[!pos] >= '0' && s.[!pos] <= '9' do incr pos done;
    if st = !pos then failwith "tree num";
    int_of_string (String.sub s st (!pos - st)) in
  let expect c = if !pos < n && s.[!pos] = c then incr pos else failwith "tree syntax" in
  let rec node () =
    let id = num () in expect ':';
    let t = num () in expect ':';
    let l = num () in expect ':';
    let h = num () in expect ':';
    let w = num () in expect ':';
    let fl = num () in expect ':';
    let fc = num () in expect ':';
    let cl = num () in expect ':';
    let cc = num () in expect ':';
    let cs = num () in expect ':';
    let cb = num () in expect '[';
    let kids = ref [] in
    while !pos < n && s.[!pos] <> ']' do kids := node () :: !kids done;
    expect ']';
    Node ({ w_id = zi id; w_rect = mkrect t l h w; w_vis = fl land 1 <> 0; w_steal = fl land 2 <> 0;
            w_notify = fl land 4 <> 0; w_focused = fl land 8 <> 0; w_fchild = (if fc < 0 then None else Some (zi fc));
            w_cline = zi cl; w_ccol = zi cc; w_cshape = zi cs; w_cvis = fl land 16 <> 0; w_cblink = zi cb },
          List.rev !kids) in
  let t = node () in
  if !pos <> n then failwith "tree trailing";
  t

(* grid parser: rows separated by '/'; returns (lines, cols, lookup) *)
let parse_grid (s : string) =
  let rows = Array.of_list (String.split_on_char '/' s) in
  let nl = Array.length rows in
  let nc = if nl = 0 then 0 else String.length rows.(0) in
  Array.iter (fun r -> if String.length r <> nc then failwith "ragged grid") rows;
  let code ch = if ch = '.' then 32 else
      match String.index_opt line_chars ch with Some k -> 201 + k | None -> Char.code ch in
  (nl, nc, fun ((l, c) : z * z) ->
      let l = iz l and c = iz c in
      if l >= 0 && l < nl && c >= 0 && c < nc then zi (code rows.(l).[c]) else zi (-1))

let parse_xlog (s : string) : (z * rect) list =
  if s = "-" then [] else
    List.map (fun e ->
        match String.split_on_char ':' e with
        | [id; r] -> (match ints (String.split_on_char ',' r) with
            | [t; l; h; w] -> (zi (int_of_string id), mkrect t l h w)
            | _ -> failwith "xlog rect")
        | _ -> failwith "xlog") (String.split_on_char ';' s)

let parse_rects (s : string) : rect list =
  if s = "-" then [] else
    List.map (fun e -> match ints (String.split_on_char ',' e) with
        | [t; l; h; w] -> mkrect t l h w | _ -> failwith "rects") (String.split_on_char ';' s)

(* scroll records "id,t,l,h,w,d,r,gen;..." -> the application's content function *)
let apply_srecs (app : z -> z -> z -> z) (s : string) =
  if s = "-" then app else
    List.fold_left (fun app e ->
        match ints (String.split_on_char ',' e) with
        | [id; t; l; h; w; d; r; g] -> app_scroll app (zi g) (zi id) (mkrect t l h w) (zi d) (zi r)
        | _ -> failwith "srec") app (String.split_on_char ';' s)

let pr_srecs (recs : ((((z * rect) * z) * z) * z) list) =
  if recs = [] then pr "-" else
    List.iteri (fun k ((((id, r), d), rw), g) ->
        pr "%s%d,%d,%d,%d,%d,%d,%d,%d" (if k > 0 then ";" else "") (iz id) (iz r.top) (iz r.left) (iz r.lines) (iz r.cols)
          (iz d) (iz rw) (iz g)) recs

(* ---------------------------------------------------------------- the model run *)
(* input routing (C14) is plugged in by the drivers that need it *)
let key_hook : (case -> mstate -> mstate * string) ref = ref (fun _ m -> (m, "-"))
let mouse_hook : (case -> int * int * int * int -> mstate -> mstate * string) ref = ref (fun _ _ m -> (m, "-"))

let model (line : string) : string =
  let c = parse_case line in
  Buffer.clear buf;
  let m = ref (m_init (zi c.hdr.nl) (zi c.hdr.nc) (oracle_of_policy c.hdr.pol)) in
  let progs = progs_fn c in
  let used = Hashtbl.create 16 in
  let first = ref true in
  let sep () = if not !first then Buffer.add_char buf ' '; first := false in
  let nrec = ref 0 in
  List.iter (fun it ->
      match it with
      | Op OFlush ->
        let before = !m in
        m := (if has_flush_or_geom c then step2 cfg progs (racts2_fn c) OFlush !m
              else step_re cfg progs (racts_fn c) OFlush !m);
        sep (); pr "F U="; pr_tree before.m_root.r_tree;
        pr " P=";
        (match before.m_root.r_damage with
         | [] -> pr "-"
         | l -> List.iteri (fun k r -> pr "%s%d,%d,%d,%d" (if k > 0 then ";" else "") (iz r.top) (iz r.left) (iz r.lines) (iz r.cols)) l);
        pr " T="; pr_tree !m.m_root.r_tree;
        pr " B="; pr_grid before.m_term; pr " G="; pr_grid !m.m_term;
        pr " X="; pr_xlog !m.m_xlog; pr_cursor !m.m_term;
        let recs = List.rev !m.m_srecs in
        pr " A="; pr_srecs (drop !nrec recs); nrec := List.length recs;
        pr " D=";
        (match !m.m_root.r_damage with
         | [] -> pr "-"
         | l -> List.iteri (fun k r -> pr "%s%d,%d,%d,%d" (if k > 0 then ";" else "") (iz r.top) (iz r.left) (iz r.lines) (iz r.cols)) l);
        pr " N=%d%d%d" (if !m.m_root.r_nexp then 1 else 0) (if !m.m_root.r_nrest then 1 else 0) (if !m.m_root.r_later then 1 else 0)
      | Op (OFocus id) ->
        sep (); pr "TF T="; pr_tree !m.m_root.r_tree;
        m := step cfg progs (OFocus id) !m;
        pr " E="; pr_fevs !m.m_fevs;
        (* the window's own focus handler, told IN about itself (the last event), re-enters *)
        (* (handlers told IN about a child come first, outermost first; the model applies what
           they call after the whole change of focus, which is the same thing as long as they
           only close the window that is being focused or one above it) *)
        let fevs = !m.m_fevs in
        List.iter (fun ((r, d), w) ->
            if d && iz r <> iz w then
              match List.assoc_opt (iz r) c.fcacts with
              | Some acts ->
                m := { !m with m_root = run_acts cfg acts !m.m_root };
                (* glue, not model: window.c's _focus_gained assigns win->focused_child = child AFTER the handler has
                   run (unless the child is no longer a child of win), so a handler that HIDES the child while it is told
                   IN about it finds no link to clear and the hidden child ends up on the focus chain; the model links
                   first and applies the handler's calls afterwards, so the link is put back here (seeded C14-11) *)
                if List.exists (function RHide x -> iz x = iz w | _ -> false) acts then begin
                  let tr = !m.m_root.r_tree in
                  match t_parent_id w tr with
                  | Some p when iz p = iz r ->
                    m := { !m with m_root = set_tree !m.m_root (t_update (fun j -> set_fchild j (Some w)) r tr) }
                  | _ -> ()
                end
              | None -> ()) fevs;
        (match List.assoc_opt (iz id) c.facts with
         | Some acts when List.exists (fun ((r, d), w) -> d && iz r = iz id && iz w = iz id) fevs ->
           m := { !m with m_root = run_acts cfg acts !m.m_root }
         | _ -> ())
      | Op (OGeom (id, r, ex)) when List.mem_assoc (iz id) c.gacts ->
        (* set_geometry; the geomchange handler (if the geometry changed) re-enters; then the
           application's exposes of old and new area, if the window is still there *)
        let st0 = !m.m_root in
        let changed = (match t_find id st0.r_tree with
            | Some (Node (i, _)) -> not (i.w_rect = r) | None -> false) in
        let st1 = win_set_geometry st0 id r in
        let st2 = if changed then run_acts cfg (List.assoc (iz id) c.gacts) st1 else st1 in
        m := { !m with m_root = geom_exposes st0 st2 id ex }
      | Op (ONew (id, pid, r, a, b, c', d)) ->
        let k = iz id in
        if k > 0 && k < 24 && not (Hashtbl.mem used k) && t_find pid !m.m_root.r_tree <> None then begin
          Hashtbl.add used k ();
          m := step cfg progs (ONew (id, pid, r, a, b, c', d)) !m
        end
      | Op (OShow id) ->
        (match t_find id !m.m_root.r_tree with
         | Some _ ->
           sep (); pr "SH W=%d U=" (iz id); pr_tree !m.m_root.r_tree;
           m := step cfg progs (OShow id) !m;
           pr " T="; pr_tree !m.m_root.r_tree
         | None -> m := step cfg progs (OShow id) !m)
      | Op (OHide id) ->
        (match t_find id !m.m_root.r_tree with
         | Some _ ->
           sep (); pr "HI W=%d U=" (iz id); pr_tree !m.m_root.r_tree;
           m := step cfg progs (OHide id) !m;
           pr " T="; pr_tree !m.m_root.r_tree
         | None -> m := step cfg progs (OHide id) !m)
      | Op o -> m := step cfg progs o !m
      | Key ->
        sep (); pr "K T="; pr_tree !m.m_root.r_tree;
        let (m', l) = !key_hook c !m in m := m'; pr " L=%s" l
      | Mouse (t, bt, l, cc) ->
        sep (); pr "MS T="; pr_tree !m.m_root.r_tree;
        let (m', lg) = !mouse_hook c (t, bt, l, cc) !m in m := m'; pr " L=%s" lg)
    c.items;
  if !m.m_root.r_fault then "FAULT fuel" else
  if !first then "-" else Buffer.contents buf

let split_case_obs (line : string) : string * string =
  match String.index_opt line '|' with
  | Some k -> (String.trim (String.sub line 0 k), String.trim (String.sub line (k + 1) (String.length line - k - 1)))
  | None -> failwith "no separator"

let main (oracle : string -> string) =
  let f = if Array.length Sys.argv > 1 && Sys.argv.(1) = "oracle" then oracle else model in
  iter_lines (fun l -> print_endline (try f l with Failure m -> "ERR " ^ m | Not_found -> "ERR notfound"
                                                | Invalid_argument m -> "ERR " ^ m))
