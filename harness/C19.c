/* C19 harness: src/pen.c through its public API.  Three pens P0..P2 (fresh at the start of
 * every case, each with an ON_CHANGE handler bound so that the event path runs).  Case line =
 * operations separated by blanks, fields by ':' (p, dst, src in 0..2; attr = the integer
 * passed as TickitPenAttr, 0..11 -- 0 and 11 are outside the enumeration):
 *
 *   sb:p:attr:v      tickit_pen_set_bool_attr          si:p:attr:v   tickit_pen_set_int_attr
 *   sc:p:attr:v      tickit_pen_set_colour_attr        sr:p:attr:r:g:b  ..._set_colour_attr_rgb8
 *   sd:p:attr:hex    tickit_pen_set_colour_attr_desc (hex = the description's bytes, - = "")
 *   ca:p:attr        tickit_pen_clear_attr             cl:p          tickit_pen_clear
 *   cp:dst:src:ow    tickit_pen_copy                   ct:dst:src:attr  tickit_pen_copy_attr
 *   cn:dst:src       P[dst] = tickit_pen_clone(P[src]) nw:p          P[p] = tickit_pen_new()
 *   hk:p             take an extra reference on P[p]; its change handler drops it again in the
 *                    middle of the next change event (the pen must survive: the library holds the
 *                    pen while handlers run).  No effect on any getter.
 *
 * Observation: per operation  r<ret>=<dump of the written pen>;  then F<dump P0>;<dump P1>;
 * <dump P2>;E<equiv(i,j), 9 digits>:<equiv_attr(i,j,attr), 9 x 12 digits>.
 * dump = for attr 1..10, 0, 11:  <has><get_bool><has_rgb8><nondefault>,<get_int>,<get_colour>,
 * <rrggbb> joined by '/', then /<is_nonempty><is_nondefault>. */
#include "tickit.h"
#include "common.h"

/* freshly malloc'd memory is filled with 0xff, so that every field and validity bit
 * tickit_pen_new does not initialise starts as all-ones */
const char *__asan_default_options(void) { return "max_malloc_fill_size=4096:malloc_fill_byte=255"; }

static int changes;
static TickitPen *P[3];
static int armed[3];
static int on_change(TickitPen *pen, TickitEventFlags flags, void *info, void *user)
{
  changes++;
  for(int i = 0; i < 3; i++)
    if(P[i] == pen && armed[i]) { armed[i] = 0; tickit_pen_unref(pen); }
  return 0;
}
static void disarm(int i) { if(armed[i]) { armed[i] = 0; tickit_pen_unref(P[i]); } }

static const int dump_attrs[12] = { 1, 2, 3, 4, 5, 6, 7, 8, 9, 10, 0, 11 };

static void dump(const TickitPen *p)
{
  for(int k = 0; k < 12; k++) {
    TickitPenAttr a = (TickitPenAttr)dump_attrs[k];
    TickitPenRGB8 c = tickit_pen_get_colour_attr_rgb8(p, a);
    printf("%d%d%d%d,%d,%d,%02x%02x%02x/",
           !!tickit_pen_has_attr(p, a), !!tickit_pen_get_bool_attr(p, a),
           !!tickit_pen_has_colour_attr_rgb8(p, a), !!tickit_pen_nondefault_attr(p, a),
           tickit_pen_get_int_attr(p, a), tickit_pen_get_colour_attr(p, a), c.r, c.g, c.b);
  }
  printf("%d%d", !!tickit_pen_is_nonempty(p), !!tickit_pen_is_nondefault(p));
}

static int split(char *t, char **f, int max)
{
  int n = 0;
  f[n++] = t;
  for(char *c = t; *c && n < max; c++)
    if(*c == ':') { *c = 0; f[n++] = c + 1; }
  return n;
}

static TickitPen *newpen(void)
{
  TickitPen *p = tickit_pen_new();
  tickit_pen_bind_event(p, TICKIT_PEN_ON_CHANGE, 0, on_change, NULL);
  return p;
}

int main(void)
{
  setvbuf(stdout, NULL, _IOLBF, 0);
  while(vh_next()) {
    for(int i = 0; i < 3; i++) { P[i] = newpen(); armed[i] = 0; }
    int bad = 0;
    for(int i = 0; i < vh_ntok && !bad; i++) {
      char *f[8];
      int n = split(vh_tok[i], f, 8);
      const char *op = f[0];
      int ret = 1;
      if(n < 2 || strlen(op) != 2) { bad = 1; break; }
      int d = atoi(f[1]);
      if(d < 0 || d > 2) { bad = 1; break; }
#define NEED(k) if(n < (k)) { bad = 1; break; }
#define SRC(k) int s = atoi(f[k]); if(s < 0 || s > 2) { bad = 1; break; }
      if(!strcmp(op, "sb")) { NEED(4); tickit_pen_set_bool_attr(P[d], atoi(f[2]), atoi(f[3]) != 0); }
      else if(!strcmp(op, "si")) { NEED(4); tickit_pen_set_int_attr(P[d], atoi(f[2]), atoi(f[3])); }
      else if(!strcmp(op, "sc")) { NEED(4); tickit_pen_set_colour_attr(P[d], atoi(f[2]), atoi(f[3])); }
      else if(!strcmp(op, "sr")) {
        NEED(6);
        TickitPenRGB8 c = { atoi(f[3]), atoi(f[4]), atoi(f[5]) };
        tickit_pen_set_colour_attr_rgb8(P[d], atoi(f[2]), c);
      }
      else if(!strcmp(op, "sd")) {
        NEED(4);
        size_t len;
        unsigned char *b = vh_hex(f[3], &len);
        /* exactly strlen + 1 bytes: a read past the NUL is a heap overflow */
        char *e = malloc(len + 1); memcpy(e, b, len + 1); free(b);
        ret = tickit_pen_set_colour_attr_desc(P[d], atoi(f[2]), e) ? 1 : 0;
        free(e);
      }
      else if(!strcmp(op, "ca")) { NEED(3); tickit_pen_clear_attr(P[d], atoi(f[2])); }
      else if(!strcmp(op, "cl")) { tickit_pen_clear(P[d]); }
      else if(!strcmp(op, "cp")) { NEED(4); SRC(2); tickit_pen_copy(P[d], P[s], atoi(f[3]) != 0); }
      else if(!strcmp(op, "ct")) { NEED(4); SRC(2); tickit_pen_copy_attr(P[d], P[s], atoi(f[3])); }
      else if(!strcmp(op, "cn")) {
        NEED(3); SRC(2);
        TickitPen *c = tickit_pen_clone(P[s]);
        disarm(d);
        tickit_pen_unref(P[d]);
        P[d] = c;
      }
      else if(!strcmp(op, "nw")) { disarm(d); tickit_pen_unref(P[d]); P[d] = tickit_pen_new(); }
      else if(!strcmp(op, "hk")) { if(!armed[d]) { tickit_pen_ref(P[d]); armed[d] = 1; } }
      else { bad = 1; break; }
      printf("r%d=", ret); dump(P[d]); printf(";");
    }
    if(bad) { printf(" ERR op\n"); for(int i = 0; i < 3; i++) { disarm(i); tickit_pen_unref(P[i]); } continue; }
    printf("F"); dump(P[0]); printf(";"); dump(P[1]); printf(";"); dump(P[2]); printf(";E");
    for(int i = 0; i < 3; i++) for(int j = 0; j < 3; j++) printf("%d", !!tickit_pen_equiv(P[i], P[j]));
    printf(":");
    for(int i = 0; i < 3; i++) for(int j = 0; j < 3; j++)
      for(int k = 0; k < 12; k++) printf("%d", !!tickit_pen_equiv_attr(P[i], P[j], (TickitPenAttr)dump_attrs[k]));
    printf("\n");
    for(int i = 0; i < 3; i++) { disarm(i); tickit_pen_unref(P[i]); }
  }
  return 0;
}
