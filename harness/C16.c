/* C16 harness: runs histories of bind / unbind / emit / destroy against src/bindings.c
 * and logs every handler invocation.
 *
 * case line:  <mode> <maxdepth> <s0F> <s0U> <s0X> <s1F> <s1U> <s1X> <s2F> <s2U> <s2X> <op>...
 *   mode      D = direct calls of tickit_bindings_* on a struct TickitBindings of our own
 *             T = the same history through a TickitTerm (bind_event / set_size = event 1 via
 *                 run_event / emit_key = event 2, emit_mouse = event 3 via run_event_whilefalse /
 *                 unref = destroy)
 *             P = through a TickitPen (event 1 = ON_CHANGE, unref = destroy)
 *   s<h><k>   script of handler h for invocation kind k (F: flags contain FIRE, U: flags ==
 *             UNBIND, X: flags contain DESTROY):  <ret>/<once>/<act>,<act>,...   ("-" = none)
 *             the script is performed only while the nesting depth is below maxdepth and,
 *             if once=1, only on the first invocation of (h,k) in the case; ret is returned always
 *   op, act   b<ev>.<flags>.<hid>   u<id>   e<ev>   w<ev>   x
 *
 * observation: the bracketed trace (see BindDefs.v [tev]) as tokens
 *   B:name:ev:flags:hid:id  U:id .. u  E:ev|W:ev .. e:ret  X .. x  C:name:flags:depth .. c:ret
 * and, in mode D, after every top-level op  S:<is_iterating><needs_delete>:id.ev.flags.name,...
 * and L:<n> after a destroy that left n nodes of bindings.c's allocation unfreed.
 *
 * name = +k / -k for the k-th bind call of the case (negative when bound FIRST); it is what
 * the data pointer of the binding points to. */
#include <stddef.h>
#include <stdlib.h>
/* allocations made by bindings.c are counted and registered, so that a node the library
 * forgets is reported for the case at hand (L:n) and released, instead of being blamed by
 * LeakSanitizer on whichever case happens to be the last of the process */
static long c16_allocs;
#define C16_MAXLIVE 8192
static void *c16_live[C16_MAXLIVE];
static void *c16_malloc(size_t n)
{
  void *p = malloc(n);
  c16_allocs++;
  for(int i = 0; i < C16_MAXLIVE; i++) if(!c16_live[i]) { c16_live[i] = p; break; }
  return p;
}
static void c16_free(void *p)
{
  if(!p) return;
  c16_allocs--;
  for(int i = 0; i < C16_MAXLIVE; i++) if(c16_live[i] == p) { c16_live[i] = NULL; break; }
  free(p);
}
static void c16_release_forgotten(void)
{
  for(int i = 0; i < C16_MAXLIVE; i++) if(c16_live[i]) { free(c16_live[i]); c16_live[i] = NULL; }
  c16_allocs = 0;
}
#define malloc c16_malloc
#define free   c16_free
#include "bindings.c"
#undef malloc
#undef free
#include "common.h"

enum { KF = 0, KU = 1, KX = 2 };
#define MAXACT 8
typedef struct { char op; int a, b, c; } Act;
typedef struct { int ret, once, n; Act acts[MAXACT]; } Script;

static Script scripts[3][3];
static int seen[3][3];
static int maxdepth, depth, quiet;
static long ncalls;                 /* handler invocations in this case */
#define MAXCALLS 3000               /* beyond this the handlers go silent: a runaway is reported, not logged */
static char mode;

typedef struct { int name, hid; } HRec;
#define MAXBIND 4096
static HRec *recs[MAXBIND];
static int nrecs, nbind;

static struct TickitBindings bindings;
static TickitTerm *tt;
static TickitPen *pen;
static int term_lines;

static int parse_act(const char *s, Act *a)
{
  a->op = s[0]; a->a = a->b = a->c = 0;
  switch(s[0]) {
    case 'b': return sscanf(s + 1, "%d.%d.%d", &a->a, &a->b, &a->c) == 3;
    case 'u': case 'e': case 'w': return sscanf(s + 1, "%d", &a->a) == 1;
    case 'x': return s[1] == 0;
  }
  return 0;
}

static int parse_script(char *s, Script *sc)
{
  sc->n = 0;
  char *p1 = strchr(s, '/'); if(!p1) return 0;
  char *p2 = strchr(p1 + 1, '/'); if(!p2) return 0;
  sc->ret = atoi(s); sc->once = atoi(p1 + 1);
  char *p = p2 + 1;
  if(strcmp(p, "-") == 0) return 1;
  char *save = NULL;
  for(char *t = strtok_r(p, ",", &save); t; t = strtok_r(NULL, ",", &save)) {
    if(sc->n >= MAXACT || !parse_act(t, &sc->acts[sc->n])) return 0;
    sc->n++;
  }
  return 1;
}

static void do_act(const Act *a);

static int handler(void *owner, TickitEventFlags flags, void *info, void *data)
{
  HRec *r = data;
  if(quiet) return 0;
  if(++ncalls > MAXCALLS) return 0;
  int kind = (flags & TICKIT_EV_DESTROY) ? KX : (flags & TICKIT_EV_FIRE) ? KF : KU;
  Script *sc = &scripts[r->hid][kind];
  int run = depth < maxdepth && !(sc->once && seen[r->hid][kind]);
  seen[r->hid][kind] = 1;
  printf(" C:%d:%d:%d", r->name, (int)flags, depth);
  depth++;
  if(run)
    for(int i = 0; i < sc->n; i++) do_act(&sc->acts[i]);
  depth--;
  printf(" c:%d", sc->ret);
  return sc->ret;
}
/* the public objects' handler types differ only in the owner's pointer type */
static int term_handler(TickitTerm *t, TickitEventFlags flags, void *info, void *data) { return handler(t, flags, info, data); }
static int pen_handler(TickitPen *p, TickitEventFlags flags, void *info, void *data) { return handler(p, flags, info, data); }

static void outfunc(TickitTerm *t, const char *bytes, size_t len, void *user) { }

static void new_object(void)
{
  if(mode == 'D') { memset(&bindings, 0, sizeof bindings); }
  else if(mode == 'T') {
    tt = tickit_term_new_for_termtype("xterm");
    tickit_term_set_output_func(tt, outfunc, NULL);
    term_lines = 25;
    tickit_term_set_size(tt, term_lines, 80);
  }
  else { pen = tickit_pen_new(); }
}

static int bad_op;

static void do_act(const Act *a)
{
  switch(a->op) {
    case 'b': {
      if(a->c < 0 || a->c > 2) { bad_op = 1; return; }
      HRec *r = malloc(sizeof *r);
      nbind++;
      r->name = (a->b & TICKIT_BIND_FIRST) ? -nbind : nbind;
      r->hid = a->c;
      if(nrecs < MAXBIND) recs[nrecs++] = r;
      int id;
      if(mode == 'D') id = tickit_bindings_bind_event(&bindings, NULL, a->a, a->b, handler, r);
      else if(mode == 'T') id = tickit_term_bind_event(tt, a->a, a->b, term_handler, r);
      else id = tickit_pen_bind_event(pen, a->a, a->b, pen_handler, r);
      printf(" B:%d:%d:%d:%d:%d", r->name, a->a, a->b, a->c, id);
      break;
    }
    case 'u':
      printf(" U:%d", a->a);
      if(mode == 'D') tickit_bindings_unbind_event_id(&bindings, NULL, a->a);
      else if(mode == 'T') tickit_term_unbind_event_id(tt, a->a);
      else tickit_pen_unbind_event_id(pen, a->a);
      printf(" u");
      break;
    case 'e':
      if(mode == 'D') {
        printf(" E:%d", a->a);
        tickit_bindings_run_event(&bindings, NULL, a->a, NULL);
      }
      else if(mode == 'T' && a->a == TICKIT_TERM_ON_RESIZE) {
        printf(" E:%d", a->a);
        tickit_term_set_size(tt, ++term_lines, 80);
      }
      else if(mode == 'P' && a->a == TICKIT_PEN_ON_CHANGE) {
        printf(" E:%d", a->a);
        tickit_pen_set_bool_attr(pen, TICKIT_PEN_BOLD, true);
      }
      else { bad_op = 1; return; }
      printf(" e:0");
      break;
    case 'w': {
      int ret = 0;
      if(mode == 'D') {
        printf(" W:%d", a->a);
        ret = tickit_bindings_run_event_whilefalse(&bindings, NULL, a->a, NULL);
        printf(" e:%d", ret);
      }
      else if(mode == 'T' && a->a == TICKIT_TERM_ON_KEY) {
        TickitKeyEventInfo info = { .type = TICKIT_KEYEV_TEXT, .mod = 0, .str = "a" };
        printf(" W:%d", a->a);
        tickit_term_emit_key(tt, &info);
        printf(" e:?");       /* the public call does not return the result */
      }
      else if(mode == 'T' && a->a == TICKIT_TERM_ON_MOUSE) {
        TickitMouseEventInfo info = { .type = TICKIT_MOUSEEV_PRESS, .button = 1, .mod = 0, .line = 1, .col = 1 };
        printf(" W:%d", a->a);
        tickit_term_emit_mouse(tt, &info);
        printf(" e:?");
      }
      else { bad_op = 1; return; }
      break;
    }
    case 'x':
      printf(" X");
      if(mode == 'D') {
        tickit_bindings_unbind_and_destroy(&bindings, NULL);
        printf(" x");
        if(depth == 0) {
          if(c16_allocs) { printf(" L:%ld", c16_allocs); c16_release_forgotten(); }
          new_object();
        }
      }
      else if(mode == 'T') { tickit_term_unref(tt); printf(" x"); if(depth == 0) new_object(); }
      else { tickit_pen_unref(pen); printf(" x"); if(depth == 0) new_object(); }
      break;
    default: bad_op = 1;
  }
}

static void dump(void)
{
  printf(" S:%d%d:", bindings.is_iterating ? 1 : 0, bindings.needs_delete ? 1 : 0);
  int k = 0;
  for(struct TickitBinding *b = bindings.first; b; b = b->next) {
    printf("%s%d.%d.%d.%d", k++ ? "," : "", b->id, b->evindex, (int)b->flags, ((HRec *)b->data)->name);
  }
  if(!k) printf("-");
}

int main(void)
{
  setvbuf(stdout, NULL, _IOFBF, 1 << 16);
  while(vh_next()) {
    if(vh_ntok < 11) { printf("ERR case\n"); continue; }
    mode = vh_tok[0][0];
    maxdepth = vh_int(1);
    int ok = (mode == 'D' || mode == 'T' || mode == 'P') && vh_tok[0][1] == 0;
    for(int h = 0; h < 3 && ok; h++)
      for(int k = 0; k < 3 && ok; k++) {
        ok = parse_script(vh_tok[2 + 3*h + k], &scripts[h][k]);
        for(int i = 0; ok && i < scripts[h][k].n; i++)
          if(scripts[h][k].acts[i].op == 'x') ok = 0;      /* destroy is a top-level op only */
      }
    Act ops[MAXTOK];
    int nops = 0;
    for(int i = 11; i < vh_ntok && ok; i++) ok = parse_act(vh_tok[i], &ops[nops++]);
    if(!ok) { printf("ERR case\n"); continue; }
    memset(seen, 0, sizeof seen);
    depth = 0; nbind = 0; nrecs = 0; bad_op = 0; c16_allocs = 0; ncalls = 0;
    new_object();
    printf("T");
    for(int i = 0; i < nops && !bad_op; i++) {
      do_act(&ops[i]);
      if(mode == 'D') dump();
    }
    if(bad_op) printf(" ERR op");
    if(ncalls > MAXCALLS) printf(" RUNAWAY");
    /* dispose of the object quietly: handlers log nothing that is compared */
    quiet = 1;
    if(mode == 'D') tickit_bindings_unbind_and_destroy(&bindings, NULL);
    else if(mode == 'T') tickit_term_unref(tt);
    else tickit_pen_unref(pen);
    quiet = 0;
    if(mode == 'D' && c16_allocs) { printf(" L:%ld", c16_allocs); c16_release_forgotten(); }
    for(int i = 0; i < nrecs; i++) free(recs[i]);
    printf("\n");
    fflush(stdout);
  }
  return 0;
}
