/* XTI harness (beyond the given properties): the terminfo driver src/termdriver-ti.c, compiled with
 * -DHAVE_UNIBILIUM against the shim harness/ti_shim/unibilium.h (abstract terminfo entry, symbolic capability
 * strings), driven through the public API of term.c.
 * case:  <lines> <cols> <colours> <bce> <missing-mask> <kmous> <op>...
 *   missing-mask: bit i set = optional capability i absent, i = 0 vpa, 1 hpa, 2 cuu1, 3 cud1, 4 cuf1, 5 cub1,
 *                 6 ich1, 7 dch1, 8 il1, 9 dl1, 10 ritm, 11 sitm;   kmous: 0 none, 1 ESC[M, 2 ESC[<
 *   ops: G:l:c M:d:r P:hex E:n:me K S:t:l:h:w:d:r c:<pen> s:<pen> A:v V:v U:v (setctl altscreen, cursorvis, mouse)
 *        g:X (getctl A V U or C = colors) Z (pause) R (resume) T (teardown)
 * observation per op: <ret>:<bytes hex>, getctl "=<value>" */
#include "xt_common.h"
#include "unibilium.h"

unsigned ti_shim_missing;
int ti_shim_bce, ti_shim_colours, ti_shim_lines, ti_shim_cols, ti_shim_kmous;

static const enum unibi_string optional_caps[12] = {
  unibi_row_address, unibi_column_address, unibi_cursor_up, unibi_cursor_down, unibi_cursor_right,
  unibi_cursor_left, unibi_insert_character, unibi_delete_character, unibi_insert_line, unibi_delete_line,
  unibi_exit_italics_mode, unibi_enter_italics_mode,
};

static TickitTermCtl ctl_of(char c)
{
  switch(c) {
    case 'A': return TICKIT_TERMCTL_ALTSCREEN;
    case 'V': return TICKIT_TERMCTL_CURSORVIS;
    case 'U': return TICKIT_TERMCTL_MOUSE;
    case 'C': return TICKIT_TERMCTL_COLORS;
  }
  return 0;
}

int main(void)
{
  setvbuf(stdout, NULL, _IOLBF, 0);
  while(vh_next()) {
    if(vh_ntok < 6) { printf("ERR case\n"); continue; }
    ti_shim_lines = vh_int(0); ti_shim_cols = vh_int(1); ti_shim_colours = vh_int(2); ti_shim_bce = vh_int(3);
    unsigned mask = vh_int(4);
    ti_shim_missing = 0;
    for(int i = 0; i < 12; i++) if(mask & (1u << i)) ti_shim_missing |= 1u << optional_caps[i];
    ti_shim_kmous = vh_int(5);
    xt_reset();
    TickitTerm *tt = tickit_term_build(&(struct TickitTermBuilder){
      .termtype = "shimterm", .output_func = xt_output, .output_func_user = NULL,
    });
    if(!tt || strcmp(tickit_term_get_drivername(tt), "terminfo") != 0) { printf("ERR build\n"); continue; }
    printf("I:"); xt_puthex();
    for(int i = 6; i < vh_ntok; i++) {
      char *f[8];
      char kind = vh_tok[i][0];
      int nf = xt_split(vh_tok[i], f, 8);
      int ret = 1;
      xt_reset();
      if(kind == 'g' && nf >= 2) {
        int v = -99;
        bool ok = tickit_term_getctl_int(tt, ctl_of(f[1][0]), &v);
        if(ok) printf(" =%d", v); else printf(" =fail");
        continue;
      }
      switch(kind) {
        case 'G': if(nf < 3) goto bad; ret = tickit_term_goto(tt, atoi(f[1]), atoi(f[2])); break;
        case 'M': if(nf < 3) goto bad; tickit_term_move(tt, atoi(f[1]), atoi(f[2])); break;
        case 'P': {
          if(nf < 2) goto bad;
          size_t len; unsigned char *b = vh_hex(f[1], &len);
          if(len) tickit_term_printn(tt, (char *)b, len);
          free(b); break;
        }
        case 'E': if(nf < 3) goto bad; tickit_term_erasech(tt, atoi(f[1]), atoi(f[2])); break;
        case 'K': tickit_term_clear(tt); break;
        case 'S': {
          if(nf < 7) goto bad;
          TickitRect r = { .top = atoi(f[1]), .left = atoi(f[2]), .lines = atoi(f[3]), .cols = atoi(f[4]) };
          ret = tickit_term_scrollrect(tt, r, atoi(f[5]), atoi(f[6]));
          break;
        }
        case 'c': case 's': {
          if(nf < 2) goto bad;
          TickitPen *pen = xt_parse_pen(f[1]);
          if(kind == 'c') tickit_term_chpen(tt, pen); else tickit_term_setpen(tt, pen);
          tickit_pen_unref(pen);
          break;
        }
        case 'A': case 'V': case 'U':
          if(nf < 2) goto bad; ret = tickit_term_setctl_int(tt, ctl_of(kind), atoi(f[1])); break;
        case 'Z': tickit_term_pause(tt); break;
        case 'R': tickit_term_resume(tt); break;
        case 'T': tickit_term_teardown(tt); break;
        default: goto bad;
      }
      tickit_term_flush(tt);
      printf(" %d:", ret ? 1 : 0); xt_puthex();
      continue;
bad:
      printf(" ERR");
    }
    printf("\n");
    xt_reset();
    tickit_term_unref(tt);
  }
  return 0;
}
