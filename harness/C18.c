/* C18 harness: see loopharness.h (the script language is shared with C17). */
#include "loopharness.h"
int main(void) { return loop_main(); }
