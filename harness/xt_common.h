/* xt_common.h -- shared by the C09 / C10 / C12 harnesses: a real xterm TickitTerm whose
 * output function captures the bytes, capabilities established through the real probing
 * path (DECRPM / DECRQSS replies pushed as input, the private xterm.cap_rgb8 control),
 * and a compact pen syntax: "-" (empty) or "fg=12#aabbcc,bg=-1,b=1,u=2,i=0,rv=1,strike=0,
 * af=3,blink=1,sizepos=2". */
#ifndef VERIF_XT_COMMON_H
#define VERIF_XT_COMMON_H
#include "tickit.h"
#include "common.h"

static unsigned char *xt_out = NULL;
static size_t xt_outlen = 0, xt_outcap = 0;

static void xt_output(TickitTerm *tt, const char *bytes, size_t len, void *user)
{
  (void)tt; (void)user;
  if(!bytes || !len) return;
  if(xt_outlen + len + 1 > xt_outcap) {
    xt_outcap = (xt_outlen + len + 1) * 2;
    xt_out = realloc(xt_out, xt_outcap);
  }
  memcpy(xt_out + xt_outlen, bytes, len);
  xt_outlen += len;
}
static void xt_reset(void) { xt_outlen = 0; }
static void xt_puthex(void) { vh_puthex(xt_out, xt_outlen); }

/* builds the terminal; the start-up bytes are in the capture buffer afterwards */
static TickitTerm *xt_build(void)
{
  xt_reset();
  TickitTerm *tt = tickit_term_build(&(struct TickitTermBuilder){
    .termtype         = "xterm",
    .output_func      = xt_output,
    .output_func_user = NULL,
  });
  return tt;
}

static void xt_push(TickitTerm *tt, const char *s)
{
  tickit_term_input_push_bytes(tt, s, strlen(s));
}

/* replies to the probes of start(): mode 69 (slrm = the DECRPM value of the reply: 0 not recognised, 1 set, 2 reset,
 * 3 permanently set, 4 permanently reset), 25 / 12 with the DECRPM
 * values given (0 = no reply), DECSCUSR report (shape < 0 = no reply), SGR report choosing
 * the sub-parameter separator; RGB through the private control */
static void xt_probe(TickitTerm *tt, int slrm, int rpm25, int rpm12, int decscusr, int colon, int rgb)
{
  char buf[64];
  snprintf(buf, sizeof buf, "\e[?69;%d$y", slrm); xt_push(tt, buf);
  if(rpm25) { snprintf(buf, sizeof buf, "\e[?25;%d$y", rpm25); xt_push(tt, buf); }
  if(rpm12) { snprintf(buf, sizeof buf, "\e[?12;%d$y", rpm12); xt_push(tt, buf); }
  if(decscusr >= 0) { snprintf(buf, sizeof buf, "\eP1$r%d q\e\\", decscusr); xt_push(tt, buf); }
  xt_push(tt, colon ? "\eP1$r38:5:255m\e\\" : "\eP1$r38;5;255m\e\\");
  tickit_term_setctl_int(tt, tickit_termctl_lookup("xterm.cap_rgb8"), rgb);
}

static int xt_getcap(TickitTerm *tt, const char *name)
{
  int v = -1;
  tickit_term_getctl_int(tt, tickit_termctl_lookup(name), &v);
  return v;
}

/* sets the attributes of the compact syntax on an existing pen object */
static void xt_apply_pen(TickitPen *pen, const char *s);
static TickitPen *xt_parse_pen(const char *s)
{
  TickitPen *pen = tickit_pen_new();
  xt_apply_pen(pen, s);
  return pen;
}
static void xt_apply_pen(TickitPen *pen, const char *s)
{
  if(strcmp(s, "-") == 0) return;
  char *copy = strdup(s), *save = NULL;
  for(char *item = strtok_r(copy, ",", &save); item; item = strtok_r(NULL, ",", &save)) {
    char *eq = strchr(item, '=');
    if(!eq) continue;
    *eq = 0;
    TickitPenAttr attr = tickit_penattr_lookup(item);
    if((int)attr < 1) continue;
    char *val = eq + 1;
    switch(tickit_penattr_type(attr)) {
      case TICKIT_PENTYPE_BOOL:
        tickit_pen_set_bool_attr(pen, attr, atoi(val)); break;
      case TICKIT_PENTYPE_INT:
        tickit_pen_set_int_attr(pen, attr, atoi(val)); break;
      case TICKIT_PENTYPE_COLOUR: {
        char *hash = strchr(val, '#');
        if(hash) *hash = 0;
        tickit_pen_set_colour_attr(pen, attr, atoi(val));
        if(hash) {
          unsigned r, g, b;
          if(sscanf(hash + 1, "%2x%2x%2x", &r, &g, &b) == 3)
            tickit_pen_set_colour_attr_rgb8(pen, attr, (TickitPenRGB8){ .r = r, .g = g, .b = b });
        }
        break;
      }
    }
  }
  free(copy);
}
/* tickit_pen_clear_attr for every attribute named in "u=0,af=0" (the values are ignored) */
static void xt_clear_attrs(TickitPen *pen, const char *s)
{
  if(strcmp(s, "-") == 0) return;
  char *copy = strdup(s), *save = NULL;
  for(char *item = strtok_r(copy, ",", &save); item; item = strtok_r(NULL, ",", &save)) {
    char *eq = strchr(item, '=');
    if(eq) *eq = 0;
    TickitPenAttr attr = tickit_penattr_lookup(item);
    if((int)attr >= 1) tickit_pen_clear_attr(pen, attr);
  }
  free(copy);
}

/* canonical text of a pen, attributes in enum order */
static void xt_print_pen(const TickitPen *pen)
{
  int n = 0;
  for(TickitPenAttr attr = 1; attr < TICKIT_N_PEN_ATTRS; attr++) {
    if(!tickit_pen_has_attr(pen, attr)) continue;
    if(n++) putchar(',');
    printf("%s=", tickit_penattr_name(attr));
    switch(tickit_penattr_type(attr)) {
      case TICKIT_PENTYPE_BOOL:   printf("%d", tickit_pen_get_bool_attr(pen, attr)); break;
      case TICKIT_PENTYPE_INT:    printf("%d", tickit_pen_get_int_attr(pen, attr)); break;
      case TICKIT_PENTYPE_COLOUR:
        printf("%d", tickit_pen_get_colour_attr(pen, attr));
        if(tickit_pen_has_colour_attr_rgb8(pen, attr)) {
          TickitPenRGB8 c = tickit_pen_get_colour_attr_rgb8(pen, attr);
          printf("#%02x%02x%02x", c.r, c.g, c.b);
        }
        break;
    }
  }
  if(!n) putchar('-');
}

/* split "a:b:c" in place; returns the number of fields */
static int xt_split(char *s, char **f, int max)
{
  int n = 0;
  f[n++] = s;
  for(char *p = s; *p && n < max; p++)
    if(*p == ':') { *p = 0; f[n++] = p + 1; }
  return n;
}
#endif
