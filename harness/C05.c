/* C05 harness: runs the real TickitRectSet of src/rectset.c over one history per line
 * (format: see ocaml/drv_C05.ml) and prints the array after every operation and the
 * answer of every query.  rectset.c is #included (and excluded from the separately
 * compiled sources) so that a fan-out can copy the set byte for byte: re-adding the
 * rectangles would not reproduce the same array. */
#include "tickit.h"
#include "rectset.c"
#include "common.h"

static void dump(TickitRectSet *trs)
{
  size_t n = tickit_rectset_rects(trs);
  TickitRect *r = malloc((n ? n : 1) * sizeof *r);
  size_t got = tickit_rectset_get_rects(trs, r, n);
  printf("%zu", got);
  for(size_t i = 0; i < got; i++) {
    TickitRect one;                       /* cross-check the single-rectangle accessor */
    if(tickit_rectset_get_rect(trs, i, &one) != 1 || memcmp(&one, r + i, sizeof one) != 0)
      printf(" GETRECT-DIFFERS");
    printf(" %d %d %d %d", r[i].top, r[i].left, r[i].lines, r[i].cols);
  }
  free(r);
}

static TickitRectSet *copyset(const TickitRectSet *src)
{
  TickitRectSet *c = tickit_rectset_new();
  free(c->rects);
  c->rects = malloc(src->size * sizeof(c->rects[0]));
  memcpy(c->rects, src->rects, src->count * sizeof(c->rects[0]));
  c->count = src->count; c->size = src->size;
  return c;
}

static void query(TickitRectSet *trs, const TickitRect *q, int *c, int *i)
{
  *c = tickit_rectset_contains(trs, q) ? 1 : 0;
  *i = tickit_rectset_intersects(trs, q) ? 1 : 0;
}

int main(void)
{
  while(vh_next()) {
    TickitRectSet *trs = tickit_rectset_new();
    int k = 0, first = 1, bad = 0;
    while(k < vh_ntok && !bad) {
      const char *op = vh_tok[k];
      if(!first) printf(" ; ");
      first = 0;
      TickitRect r;
      if((op[0] == 'A' || op[0] == 'S' || op[0] == 'Q') && !op[1] && k + 4 < vh_ntok) {
        tickit_rect_init_sized(&r, vh_int(k+1), vh_int(k+2), vh_int(k+3), vh_int(k+4));
        k += 5;
        if(op[0] == 'A')      { tickit_rectset_add(trs, &r); dump(trs); }
        else if(op[0] == 'S') { tickit_rectset_subtract(trs, &r); dump(trs); }
        else { int c, i; query(trs, &r, &c, &i); printf("q %d %d", c, i); }
      }
      else if(op[0] == 'T' && !op[1] && k + 2 < vh_ntok) {
        tickit_rectset_translate(trs, vh_int(k+1), vh_int(k+2)); k += 3; dump(trs);
      }
      else if(op[0] == 'C' && !op[1]) { tickit_rectset_clear(trs); k += 1; dump(trs); }
      else if((op[0] == 'G' || op[0] == 'F') && k + 2 < vh_ntok) {
        int lo = vh_int(k+1), hi = vh_int(k+2);
        char which = op[0] == 'F' ? op[1] : 'G';
        k += 3;
        if(which == 'G') printf("g "); else printf("f");
        int nalt = 0;
        for(int pass = 0; pass < 2; pass++) {
          if(which == 'G' && pass == 1) break;
          if(which == 'A' && pass == 1) break;
          if(which == 'S' && pass == 0) continue;
          for(int t = lo; t < hi; t++) for(int b = t + 1; b <= hi; b++)
          for(int l = lo; l < hi; l++) for(int rr = l + 1; rr <= hi; rr++) {
            tickit_rect_init_bounded(&r, t, l, b, rr);
            if(which == 'G') { int c, i; query(trs, &r, &c, &i); printf("%d%d", c, i); }
            else {
              TickitRectSet *cp = copyset(trs);
              if(pass == 0) tickit_rectset_add(cp, &r); else tickit_rectset_subtract(cp, &r);
              printf(nalt++ ? " , " : " ");
              dump(cp);
              tickit_rectset_destroy(cp);
            }
          }
        }
      }
      else { printf("ERR cmd"); bad = 1; }
    }
    printf("\n");
    tickit_rectset_destroy(trs);
  }
  return 0;
}
