/* C20 harness: a real TickitTerm (termtype from the case, UTF-8) receives the byte stream
 * through tickit_term_input_push_bytes, cut into chunks at the given offsets; no time-out is
 * forced in between.  Every key and mouse event the terminal emits is logged, then the
 * held-button record.
 * case : <termtype> <hexstream> <cut>[+<gap>],<cut>[+<gap>],..|- [tokens of the whole stream: ignored here]
 *        after the chunk that ends at <cut> the virtual clock advances by <gap> microseconds and
 *        the time-out is polled (tickit_term_input_check_timeout_msec), as an event loop does
 *        <cut>~<w>~<w>..: after that chunk the application WAITS instead: tickit_term_input_wait_msec(<w>)
 *        (or, <w> = T<sec>:<usec>, tickit_term_input_wait_tv) on a descriptor on which nothing ever arrives;
 *        select is replaced at link time: it advances the virtual clock by the time-out it is given and returns 0
 * obs  : k<type>:<mod>:<hexstr>   key event (type 1 = KEY, 2 = TEXT)
 *        m<type>:<button>:<line>:<col>:<mod>   mouse event (1 press, 2 drag, 3 release, 4 wheel)
 *        a<msec>   tickit_term_input_check_timeout_msec after each chunk and its gap (-1 = not
 *                  armed, else the milliseconds left; a forced time-out shows as extra events)
 *        w<usec> a<msec>   after each wait: the virtual time it took, get_timeout() afterwards (not forcing)
 *        h<mask>   TickitTerm.mouse_buttons_held at the end
 * term.c is included so that the private held-button field can be read. */
#include "term.c"
#include "common.h"

#include <sys/time.h>
/* virtual clock (microseconds), advanced by the gaps of the case and, for a termtype written
 * "<name>@<usec>", by <usec> inside every key / mouse handler (an application that takes its time) */
static long long vclock, handler_usec;
static int claim;   /* termtype written "<name>%": the handlers CLAIM every event (return 1) */
int __wrap_gettimeofday(struct timeval *tv, void *tz)
{
  long long v = 1000000LL * 1000000LL + vclock;
  tv->tv_sec = v / 1000000; tv->tv_usec = v % 1000000; return 0;
}

/* select as the wait path sees it: nothing ever arrives, the time-out passes (a wait without time-out would block
 * for ever: reported as w-1) */
static int blocked;
int __wrap_select(int n, fd_set *r, fd_set *w, fd_set *e, struct timeval *tv)
{
  if(r) FD_ZERO(r);
  if(!tv) { blocked = 1; return 0; }
  vclock += tv->tv_sec * 1000000LL + tv->tv_usec;
  return 0;
}
static int pipe_rd = -1;

static char out[1 << 18];
static size_t outn;
#define OUT(...) do { if(outn < sizeof out - 128) outn += snprintf(out + outn, sizeof out - outn, __VA_ARGS__); } while(0)

static int on_key(TickitTerm *tt, TickitEventFlags flags, void *_info, void *data)
{
  TickitKeyEventInfo *info = _info;
  OUT("k%d:%d:", info->type, info->mod);
  size_t n = strlen(info->str);
  if(n == 0) OUT("-");
  for(size_t i = 0; i < n; i++) OUT("%02x", (unsigned char)info->str[i]);
  OUT(" ");
  vclock += handler_usec;
  return claim;
}

static int on_mouse(TickitTerm *tt, TickitEventFlags flags, void *_info, void *data)
{
  TickitMouseEventInfo *info = _info;
  OUT("m%d:%d:%d:%d:%d ", info->type, info->button, info->line, info->col, info->mod);
  vclock += handler_usec;
  return claim;
}

int main(void)
{
  { int pp[2]; if(pipe(pp)) return 2; pipe_rd = pp[0]; }
  while(vh_next()) {
    if(vh_ntok < 3) { printf("ERR case\n"); fflush(stdout); continue; }
    outn = 0; out[0] = 0; vclock = 0;
    size_t len; unsigned char *b = vh_hex(vh_tok[1], &len);
    { char *at = strchr(vh_tok[0], '@'); handler_usec = at ? atoll(at + 1) : 0; if(at) *at = 0; }
    { char *cl = strchr(vh_tok[0], '%'); claim = cl != NULL; if(cl) *cl = 0; }
    /* a leading '!' marks a stream with malformed parts (robustness only, see tools/props/C20.py) */
    TickitTerm *tt = tickit_term_build(&(struct TickitTermBuilder){ .termtype = vh_tok[0] + (vh_tok[0][0] == '!') });
    if(!tt) { printf("ERR noterm\n"); fflush(stdout); free(b); continue; }
    if(strchr(vh_tok[2], '~')) tt->infd = pipe_rd;   /* the wait path needs a descriptor; nothing is ever written to it */
    tickit_term_set_utf8(tt, 1);
    tickit_term_bind_event(tt, TICKIT_TERM_ON_KEY, 0, on_key, NULL);
    tickit_term_bind_event(tt, TICKIT_TERM_ON_MOUSE, 0, on_mouse, NULL);
    size_t pos = 0;
    if(strcmp(vh_tok[2], "-") != 0) {
      char *save = NULL;
      for(char *c = strtok_r(vh_tok[2], ",", &save); c; c = strtok_r(NULL, ",", &save)) {
        char *til = strchr(c, '~');
        if(til) *til = 0;
        char *plus = strchr(c, '+');
        long long gap = plus ? atoll(plus + 1) : 0;
        size_t cut = strtoul(c, NULL, 10);
        if(cut < pos || cut > len) continue;
        /* each chunk in its own exactly-sized block so that ASan sees an over-read */
        char *chunk = malloc(cut - pos ? cut - pos : 1);
        memcpy(chunk, b + pos, cut - pos);
        tickit_term_input_push_bytes(tt, chunk, cut - pos);
        free(chunk);
        if(til) {
          for(char *w = til + 1; w; ) {
            char *nx = strchr(w, '~');
            if(nx) *nx = 0;
            long long before = vclock;
            blocked = 0;
            if(w[0] == 'T') {
              long sec = 0, usec = 0; sscanf(w + 1, "%ld:%ld", &sec, &usec);
              struct timeval tv = { .tv_sec = sec, .tv_usec = usec };
              tickit_term_input_wait_tv(tt, &tv);
            }
            else
              tickit_term_input_wait_msec(tt, atol(w));
            OUT("w%lld a%d ", blocked ? -1LL : vclock - before, get_timeout(tt));
            w = nx ? nx + 1 : NULL;
          }
        }
        else {
          vclock += gap;
          OUT("a%d ", tickit_term_input_check_timeout_msec(tt));
        }
        pos = cut;
      }
    }
    {
      char *chunk = malloc(len - pos ? len - pos : 1);
      memcpy(chunk, b + pos, len - pos);
      tickit_term_input_push_bytes(tt, chunk, len - pos);
      free(chunk);
    }
    OUT("a%d ", tickit_term_input_check_timeout_msec(tt));
    OUT("h%d", tt->mouse_buttons_held);
    tickit_term_unref(tt);
    free(b);
    printf("%s\n", out); fflush(stdout);
  }
  return 0;
}
