/* loopharness.h -- shared C side of the C17 / C18 correspondence checks.
 *
 * The real toplevel Tickit instance (tickit_build with a tiny mock terminal, the default
 * event loop of src/evloop-default.c) is driven by a script.  gettimeofday and ppoll are
 * replaced at link time (-Wl,--wrap=...): time is a virtual clock in microseconds that only
 * the script advances, and ppoll returns what the script says, behaving as the kernel does
 * with respect to the signal mask (a watched signal is blocked outside ppoll; a pending one
 * is delivered when ppoll installs its mask, and ppoll then fails with EINTR; ready
 * descriptors take precedence and leave signals pending; revents is written for every
 * slot on every call).
 *
 * Case line:   cb0=<act>,<act>,.. cb1=.. ub0=<act>,.. <op> <op> ...
 *   cb<k> = what callback k does when invoked with TICKIT_EV_FIRE; ub<k> = what it does when it
 *   is invoked with the bare TICKIT_EV_UNBIND of tickit_watch_cancel (registrations only: a
 *   c<id> there is ignored)
 *   actions / ops:
 *     t<delta>:<fl>:<cb>       tickit_watch_timer_at_tv(now+delta usec)
 *     l<fl>:<cb>               tickit_watch_later
 *     wi<fdi>:<cond>:<fl>:<cb> tickit_watch_io on descriptor number fdi of the harness
 *     ws<sig>:<fl>:<cb>        tickit_watch_signal(sig)
 *     wp<fl>:<cb>              tickit_watch_process of the child that belongs to this watch (waitpid is scripted: X, H)
 *     c<id>                    tickit_watch_cancel of watch number id if it is still live
 *     s                        tickit_stop (C18)
 *     d                        tickit_unref: the application drops its (only) reference.  From a callback the instance
 *                              lives on until tickit_tick returns; the script ends there
 *     e<n>                     errno = n
 *     k<sig>                   raise(sig) if sig is currently watched (stays blocked)
 *     -                        nothing
 *   ops only:
 *     r<dt>                    clock += dt; tickit_tick(NOHANG|NOSETUP)
 *     o                        tickit_tick(NOSETUP): ppoll sleeps for the time-out asked
 *     u<k>                     (C18) tickit_run: passes until a callback calls tickit_stop; the harness
 *                              calls it itself from inside the k-th ppoll of the run
 *     X<id>:<status>           the child of (present or future) watch number id exits with wait status <status>
 *     H                        the event loop dispatches SIGCHLD (tickit_evloop_invoke_sigwatches)
 *     G<sig>                   the event loop dispatches signal sig (tickit_evloop_invoke_sigwatches)
 *   A case that starts with WS / WP is a chain case (model coq/LoopChain.v): only signal / only process watches.
 *     R<fdi>:<revents>         descriptor fdi is ready with revents at the next ppoll
 *     K<sig>                   sig arrives while the next ppoll is waiting
 *     B<sig>                   (F cases) sig arrives right after the next read of the self-pipe's wakeup byte
 *   a case that starts with the token F uses a minimal custom event loop that has no ->signal
 *   hook, so that the library's self-pipe fallback handles signals (unblocked: the handler runs
 *   at once); poll() is then the real one
 *   the instance is destroyed at the end of every case.
 * Watches are numbered 0,1,2.. in order of registration (all kinds share the counter).
 * <fl> are TICKIT_BIND_* bits, <cb> indexes the cb table: what the callback does when it is
 * invoked with TICKIT_EV_FIRE.
 *
 * Observation: p<msec> for each ppoll call (the time-out asked, -1 = none) and
 *   e<id>:<kind>:<evflags>:<iter>:<now>:<x> for each callback invocation; kind 0 timer,
 *   1 later, 2 io, 3 signal, 4 process; x = deadline (timer),
 *   delivered condition (io, on FIRE), signal number (signal), else 0; iter counts ticks,
 *   -1 during destruction.  A trailing LEAK if the heap is larger after the case than before.
 */
#include "tickit.h"
#include "tickit-mockterm.h"
#include "common.h"
#include <errno.h>
#include <poll.h>
#include <signal.h>
#include <sys/time.h>
#include <time.h>
#include <unistd.h>
#include <sys/wait.h>

size_t __sanitizer_get_current_allocated_bytes(void);  /* libasan */

#define MAXW 2048
#define MAXCB 64
#define NFD 4

enum { K_TIMER, K_LATER, K_IO, K_SIG, K_PROC };
struct W { int id, kind, cb, live; long long x; void *watch; };

static Tickit *T;
static struct W ws[MAXW];
static int nws;
static char *cbs[MAXCB], *ubs[MAXCB], *dbs[MAXCB];
static long long vclock;
static int iter;
static int fds[NFD];            /* read ends of pipes */
static int ready[NFD];          /* scripted revents by harness descriptor number */
static int inwait[8], ninwait;  /* signals arriving while ppoll waits */
static int sleep_mode, quiet;
static int run_mode, run_count, run_limit;
/* process watches: the child of watch number id has pid PIDBASE + id; waitpid is replaced at link time */
#define PIDBASE 1000000
static int child_status[MAXW];   /* >= 0: exited with this status, not yet reaped; -1 running; -2 reaped */
static int hold_root, winch_seq;  /* wr / zw: see do_act */
static void on_alarm(int s) { (void)s; _exit(3); }   /* a hang is reported as a crash of the case */
static int dropped;              /* d: the application's reference has been dropped (from a callback or between ops) */   /* u<k>: tickit_run; the k-th ppoll of the run stops the loop */
static char out[1 << 18];
static size_t outn;

#define OUT(...) do { if(outn < sizeof out - 64) outn += snprintf(out + outn, sizeof out - outn, __VA_ARGS__); } while(0)

#define BASE_SEC 1000000LL

int __wrap_gettimeofday(struct timeval *tv, void *tz)
{
  long long v = BASE_SEC * 1000000LL + vclock;
  tv->tv_sec = v / 1000000; tv->tv_usec = v % 1000000;
  return 0;
}

pid_t __wrap_waitpid(pid_t pid, int *status, int options)
{
  int id = (int)pid - PIDBASE;
  if(id < 0 || id >= MAXW) { errno = ECHILD; return -1; }
  if(child_status[id] == -2) { errno = ECHILD; return -1; }
  if(child_status[id] < 0) return 0;               /* still running (WNOHANG) */
  if(status) *status = child_status[id];
  child_status[id] = -2;
  return pid;
}

int __wrap_ppoll(struct pollfd *pf, nfds_t n, const struct timespec *ts, const sigset_t *mask)
{
  long msec = ts ? (long)(ts->tv_sec * 1000 + ts->tv_nsec / 1000000) : -1;
  if(run_mode) {
    if(run_count++) iter++;                 /* every pass of tickit_run is an iteration */
    if(run_count >= run_limit) tickit_stop(T);
  }
  OUT("p%ld ", msec);
  int count = 0;
  for(nfds_t i = 0; i < n; i++) {
    pf[i].revents = 0;
    if(pf[i].fd < 0) continue;
    for(int j = 0; j < NFD; j++)
      if(pf[i].fd == fds[j])
        pf[i].revents = ready[j] & (pf[i].events | POLLERR | POLLHUP | POLLNVAL);
    if(pf[i].revents) count++;
  }
  for(int j = 0; j < NFD; j++) ready[j] = 0;
  if(count) { ninwait = 0; return count; }

  /* nothing ready: install the caller's mask as the kernel would; blocked pending
   * signals are delivered now, then the ones that arrive during the wait */
  sigset_t pend, old;
  sigpending(&pend);
  int delivered = 0;
  for(int s = 1; s < 32; s++)
    if(sigismember(&pend, s) && !(mask && sigismember(mask, s))) delivered++;
  sigprocmask(SIG_SETMASK, mask, &old);
  for(int i = 0; i < ninwait; i++) {
    sigset_t cur; sigprocmask(SIG_SETMASK, NULL, &cur);
    struct sigaction sa; sigaction(inwait[i], NULL, &sa);
    if(sa.sa_handler != SIG_DFL && sa.sa_handler != SIG_IGN) { raise(inwait[i]); delivered++; }
  }
  ninwait = 0;
  sigprocmask(SIG_SETMASK, &old, NULL);
  if(delivered) { errno = EINTR; return -1; }
  if(sleep_mode && msec > 0) vclock += (long long)msec * 1000;
  return 0;
}

static void run_acts(const char *acts, int toplevel);

static int on_ev(Tickit *t, TickitEventFlags flags, void *info, void *user)
{
  struct W *w = user;
  long long x = w->x;
  if(w->kind == K_IO) x = (flags & TICKIT_EV_FIRE) && info ? ((TickitIOWatchInfo *)info)->cond : 0;
  if(w->kind == K_PROC) x = (flags & TICKIT_EV_FIRE) && info ? ((TickitProcessWatchInfo *)info)->wstatus : 0;
  OUT("e%d:%d:%d:%d:%lld:%lld ", w->id, w->kind, (int)flags, iter, vclock, x);
  if(flags & (TICKIT_EV_UNBIND | TICKIT_EV_DESTROY)) w->live = 0;
  if((flags & TICKIT_EV_FIRE) && w->cb >= 0 && w->cb < MAXCB && cbs[w->cb])
    run_acts(cbs[w->cb], 0);
  if((flags & TICKIT_EV_FIRE) && w->kind == K_PROC) w->live = 0;   /* a process watch is gone once its callback returns */
  if(flags == TICKIT_EV_UNBIND && w->cb >= 0 && w->cb < MAXCB && ubs[w->cb])
    run_acts(ubs[w->cb], 2);
  /* db<k>: what the handler does when tickit_destroy notifies it (UNBIND|DESTROY) */
  if((flags & TICKIT_EV_DESTROY) && w->cb >= 0 && w->cb < MAXCB && dbs[w->cb])
    run_acts(dbs[w->cb], 3);
  return 0;
}

static struct W *neww(int kind, int cb, long long x)
{
  if(nws >= MAXW) return NULL;
  struct W *w = &ws[nws];
  w->id = nws++; w->kind = kind; w->cb = cb; w->live = 1; w->x = x; w->watch = NULL;
  return w;
}

static int is_watched(int sig)
{
  struct sigaction sa; sigaction(sig, NULL, &sa);
  return sa.sa_handler != SIG_DFL && sa.sa_handler != SIG_IGN;
}

/* one action; returns 0 if it is not an action (an op) */
static int do_act(const char *a)
{
  long long p[4] = {0, 0, 0, 0};
  if(a[0] == '-' && a[1] == 0) return 1;
  if(a[0] == 't' && (a[1] == 'a' || a[1] == 'u')) {
    /* ta<msec>:<fl>:<cb> = tickit_watch_timer_after_msec, tu<usec>:<fl>:<cb> = tickit_watch_timer_after_tv */
    sscanf(a + 2, "%lld:%lld:%lld", &p[0], &p[1], &p[2]);
    long long usec = a[1] == 'a' ? p[0] * 1000 : p[0];
    struct W *w = neww(K_TIMER, p[2], vclock + usec);
    if(!w) return 1;
    if(a[1] == 'a') w->watch = tickit_watch_timer_after_msec(T, (int)p[0], p[1], on_ev, w);
    else { struct timeval tv = { .tv_sec = usec / 1000000, .tv_usec = usec % 1000000 }; w->watch = tickit_watch_timer_after_tv(T, &tv, p[1], on_ev, w); }
    return 1;
  }
  if(a[0] == 't') {
    sscanf(a + 1, "%lld:%lld:%lld", &p[0], &p[1], &p[2]);
    long long at = vclock + p[0];
    struct W *w = neww(K_TIMER, p[2], at);
    if(!w) return 1;
    long long v = BASE_SEC * 1000000LL + at;
    struct timeval tv = { .tv_sec = v / 1000000, .tv_usec = v % 1000000 };
    w->watch = tickit_watch_timer_at_tv(T, &tv, p[1], on_ev, w);
    return 1;
  }
  if(a[0] == 'l') {
    sscanf(a + 1, "%lld:%lld", &p[0], &p[1]);
    struct W *w = neww(K_LATER, p[1], 0);
    if(!w) return 1;
    w->watch = tickit_watch_later(T, p[0], on_ev, w);
    return 1;
  }
  if(a[0] == 'w' && a[1] == 'i') {
    sscanf(a + 2, "%lld:%lld:%lld:%lld", &p[0], &p[1], &p[2], &p[3]);
    struct W *w = neww(K_IO, p[3], 0);
    if(!w) return 1;
    w->watch = tickit_watch_io(T, fds[p[0] % NFD], p[1], p[2], on_ev, w);
    return 1;
  }
  if(a[0] == 'w' && a[1] == 's') {
    sscanf(a + 2, "%lld:%lld:%lld", &p[0], &p[1], &p[2]);
    struct W *w = neww(K_SIG, p[2], p[0]);
    if(!w) return 1;
    w->watch = tickit_watch_signal(T, p[0], p[1], on_ev, w);
    return 1;
  }
  if(a[0] == 'w' && a[1] == 'p') {
    sscanf(a + 2, "%lld:%lld", &p[0], &p[1]);
    struct W *w = neww(K_PROC, p[1], 0);
    if(!w) return 1;
    w->watch = tickit_watch_process(T, PIDBASE + w->id, p[0], on_ev, w);
    return 1;
  }
  if(a[0] == 'c') {
    int id = atoi(a + 1);
    if(id >= 0 && id < nws && ws[id].live && ws[id].watch) {
      if(ws[id].kind == K_SIG) {
        /* cancelling the last watcher of a signal that is pending in the kernel restores the
         * default action and unblocks it, which terminates the process: not done */
        sigset_t pend; sigpending(&pend);
        if(sigismember(&pend, (int)ws[id].x)) return 1;
      }
      ws[id].live = 0;
      tickit_watch_cancel(T, ws[id].watch);
    }
    return 1;
  }
  if(a[0] == 'w' && a[1] == 'r' && a[2] == 0) { hold_root = 1; return 1; }   /* the application keeps a reference on the root window beyond the instance */
  if(a[0] == 'z' && a[1] == 'w' && a[2] == 0) { winch_seq = 1; return 1; }   /* after the case: observe SIGWINCH on terminals A, B; stop on A; again on A; on C */
  if(a[0] == 'n' && a[1] == 0) { iter++; tickit_tick(T, TICKIT_RUN_NOHANG | TICKIT_RUN_NOSETUP); return 1; }   /* a nested iteration, from inside a callback */
  if(a[0] == 's' && a[1] == 0) { tickit_stop(T); return 1; }
  if(a[0] == 'd' && a[1] == 0) { if(T && !dropped) { dropped = 1; tickit_unref(T); } return 1; }   /* drop the application's reference */
  if(a[0] == 'e') { errno = atoi(a + 1); return 1; }
  if(a[0] == 'k') { int s = atoi(a + 1); if(is_watched(s)) raise(s); return 1; }
  return 0;
}

static void run_acts(const char *acts, int toplevel)
{
  char buf[512];
  strncpy(buf, acts, sizeof buf - 1); buf[sizeof buf - 1] = 0;
  char *save = NULL;
  for(char *a = strtok_r(buf, ",", &save); a; a = strtok_r(NULL, ",", &save)) {
    if(toplevel == 2 && a[0] == 'c') continue;   /* no cancel from inside an unbind notification */
    do_act(a);
  }
}

/* ---- a minimal event loop WITHOUT a ->signal hook (cases that start with the token F): the
 * library then uses its self-pipe fallback (tickit.c sighandler / on_sigpipe_readable); signals
 * are not blocked, the handler runs at once.  poll() is the real one, with a zero time-out. */
#include "tickit-evloop.h"
#define FMAXFD 32
typedef struct { Tickit *t; int running, n; int used[FMAXFD]; struct pollfd pfd[FMAXFD]; TickitWatch *w[FMAXFD]; } FLoop;
static int sigpipe_rd = -1;        /* read end of the library's self-pipe: the first fd it watches */
static int between[8], nbetween;   /* signals that arrive right after the wakeup byte has been read */

static void *f_init(Tickit *t, void *initdata) { FLoop *l = calloc(1, sizeof *l); l->t = t; return l; }
static void f_destroy(void *data) { free(data); }
static void f_stop(void *data) { ((FLoop *)data)->running = 0; }
static void f_run(void *data, TickitRunFlags flags)
{
  FLoop *l = data;
  l->running = 1;
  while(l->running) {
    struct pollfd snap[FMAXFD];
    int n = l->n;
    for(int i = 0; i < n; i++) { snap[i] = l->pfd[i]; snap[i].revents = 0; if(!l->used[i]) snap[i].fd = -1; }
    OUT("p0 ");
    int ret = poll(snap, n, 0);
    tickit_evloop_invoke_timers(l->t);
    if(ret > 0)
      for(int i = 0; i < n; i++) {
        if(!l->used[i] || l->pfd[i].fd != snap[i].fd || !snap[i].revents) continue;
        TickitIOCondition cond = 0;
        if(snap[i].revents & POLLIN)  cond |= TICKIT_IO_IN;
        if(snap[i].revents & POLLHUP) cond |= TICKIT_IO_HUP;
        if(snap[i].revents & POLLERR) cond |= TICKIT_IO_ERR;
        tickit_evloop_invoke_iowatch(l->w[i], TICKIT_EV_FIRE, cond);
      }
    if(flags & (TICKIT_RUN_ONCE|TICKIT_RUN_NOHANG)) return;
  }
}
static bool f_io(void *data, int fd, TickitIOCondition cond, TickitBindFlags flags, TickitWatch *watch)
{
  FLoop *l = data; int i;
  for(i = 0; i < l->n; i++) if(!l->used[i]) break;
  if(i == FMAXFD) return false;
  if(i == l->n) l->n++;
  l->used[i] = 1; l->pfd[i].fd = fd; l->pfd[i].events = (cond & TICKIT_IO_IN) ? POLLIN : 0; l->pfd[i].revents = 0; l->w[i] = watch;
  tickit_evloop_set_watch_data_int(watch, i);
  if(sigpipe_rd == -2 && fd >= 0) sigpipe_rd = fd;   /* -2: waiting for the library's first real descriptor */
  return true;
}
static void f_cancel_io(void *data, TickitWatch *watch)
{
  FLoop *l = data; int i = tickit_evloop_get_watch_data_int(watch);
  l->used[i] = 0; l->pfd[i].fd = -1; l->w[i] = NULL;
}
static TickitEventHooks f_hooks = { .init = f_init, .destroy = f_destroy, .run = f_run, .stop = f_stop, .io = f_io, .cancel_io = f_cancel_io };

/* link-time replacement of read(): after the library has read from its self-pipe, the signals
 * scripted with B<sig> arrive (between the wakeup read and the snapshot of the pending set) */
ssize_t __real_read(int fd, void *buf, size_t n);
ssize_t __wrap_read(int fd, void *buf, size_t n)
{
  ssize_t r = __real_read(fd, buf, n);
  if(fd == sigpipe_rd && sigpipe_rd >= 0 && nbetween) {
    int k = nbetween; nbetween = 0;
    for(int i = 0; i < k; i++) if(is_watched(between[i])) raise(between[i]);
  }
  return r;
}

static void loop_case(void)
{
  size_t heap_before = __sanitizer_get_current_allocated_bytes();
  outn = 0; out[0] = 0;
  nws = 0; vclock = 0; iter = 0; ninwait = 0; sleep_mode = 0; run_mode = 0; dropped = 0; hold_root = 0; winch_seq = 0;
  for(int i = 0; i < MAXCB; i++) cbs[i] = ubs[i] = dbs[i] = NULL;
  for(int i = 0; i < MAXW; i++) child_status[i] = -1;
  for(int j = 0; j < NFD; j++) ready[j] = 0;
  int fallback = vh_ntok > 0 && strcmp(vh_tok[0], "F") == 0;
  int chaincase = vh_ntok > 0 && vh_tok[0][0] == 'W';
  nbetween = 0; sigpipe_rd = fallback ? -2 : -1;
  T = tickit_build(&(struct TickitBuilder){ .tt = (TickitTerm *)tickit_mockterm_new(2, 2), .evhooks = fallback ? &f_hooks : NULL });
  for(int i = fallback + chaincase; i < vh_ntok; i++) {
    char *a = vh_tok[i];
    if(dropped) break;      /* the instance is gone */
    if((a[0] == 'c' || a[0] == 'u' || a[0] == 'd') && a[1] == 'b') {
      char *eq = strchr(a, '=');
      int k = atoi(a + 2);
      if(eq && k >= 0 && k < MAXCB) { if(a[0] == 'c') cbs[k] = eq + 1; else if(a[0] == 'u') ubs[k] = eq + 1; else dbs[k] = eq + 1; }
      continue;
    }
    if(do_act(a)) continue;
    if(a[0] == 'r') {
      vclock += atoll(a + 1); iter++; sleep_mode = 0;
      tickit_tick(T, TICKIT_RUN_NOHANG | TICKIT_RUN_NOSETUP);
    }
    else if(a[0] == 'o') {
      iter++; sleep_mode = 1;
      tickit_tick(T, TICKIT_RUN_NOSETUP);
    }
    else if(a[0] == 'u' && !fallback) {
      iter++; sleep_mode = 1;
      run_mode = 1; run_count = 0; run_limit = atoi(a + 1); if(run_limit < 1) run_limit = 1;
      tickit_run(T);
      run_mode = 0;
    }
    else if(a[0] == 'X') {
      int id = 0, st = 0; sscanf(a + 1, "%d:%d", &id, &st);
      if(id >= 0 && id < MAXW && child_status[id] == -1) child_status[id] = st;
    }
    else if(a[0] == 'G') {
      tickit_evloop_invoke_sigwatches(T, atoi(a + 1));   /* the event loop dispatches a signal */
    }
    else if(a[0] == 'H') {
      tickit_evloop_invoke_sigwatches(T, SIGCHLD);      /* the event loop dispatches SIGCHLD */
    }
    else if(a[0] == 'R') {
      int f = 0, rv = 0; sscanf(a + 1, "%d:%d", &f, &rv);
      ready[f % NFD] = rv;
    }
    else if(a[0] == 'K') {
      if(ninwait < 8) inwait[ninwait++] = atoi(a + 1);
    }
    else if(a[0] == 'B') {
      if(nbetween < 8) between[nbetween++] = atoi(a + 1);
    }
  }
  iter = -1;
  /* a signal still pending in the kernel would kill the process when destruction
   * restores the default action and unblocks it: discard it first */
  sigset_t pend; sigpending(&pend);
  for(int s = 1; s < 32; s++)
    if(sigismember(&pend, s)) signal(s, SIG_IGN);
  TickitWindow *rootw = (hold_root && !dropped) ? tickit_window_ref(tickit_get_rootwin(T)) : NULL;
  if(!dropped) tickit_unref(T);
  if(rootw) {
    /* the window outlives the instance: it must not use it any more */
    tickit_window_flush(rootw);          /* the damage of its creation */
    tickit_window_expose(rootw, NULL);   /* new damage: asks for later processing */
    tickit_window_flush(rootw);
    tickit_window_unref(rootw);
  }
  if(winch_seq) {
    TickitTerm *ta = tickit_term_new_for_termtype("xterm"), *tb = tickit_term_new_for_termtype("xterm"),
               *tc = tickit_term_new_for_termtype("xterm");
    signal(SIGALRM, on_alarm); alarm(3);
    tickit_term_observe_sigwinch(ta, true);
    tickit_term_observe_sigwinch(tb, true);
    tickit_term_observe_sigwinch(ta, false);
    tickit_term_observe_sigwinch(ta, true);
    tickit_term_observe_sigwinch(tc, true);     /* walks the observer list to its end */
    raise(SIGWINCH);                            /* so does the handler */
    alarm(0); signal(SIGALRM, SIG_DFL);
    tickit_term_unref(ta); tickit_term_unref(tb); tickit_term_unref(tc);
  }
  T = NULL;
  /* everything the instance allocated must be gone (the dropped timer of defect #22) */
  if(__sanitizer_get_current_allocated_bytes() > heap_before) OUT("LEAK ");
  if(outn && out[outn - 1] == ' ') out[outn - 1] = 0;
  if(!quiet) { printf("%s\n", outn ? out : "-"); fflush(stdout); }  /* the runner counts lines to find a crashing case */
}

static int loop_main(void)
{
  for(int j = 0; j < NFD; j++) { int p[2]; if(pipe(p)) return 2; fds[j] = p[0]; }
  /* warm up everything that allocates once (stdio buffers, the library's statics) */
  static char obuf[1 << 16];
  setvbuf(stdout, obuf, _IOFBF, sizeof obuf);
  { vh_ntok = 0; quiet = 1; loop_case(); quiet = 0; }
  while(vh_next()) loop_case();
  /* leaks are reported per case (LEAK); LeakSanitizer's report at exit would be blamed on
   * the wrong case by the runner, so leave without running it */
  fflush(stdout);
  _exit(0);
}
