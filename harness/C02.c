/* C02 harness: see win_harness.h (expose handlers run scripted hostile drawing programs) */
#include "win_harness.h"
int main(void) { return win_main(); }
