/* C09 harness: drawing requests on a real xterm TickitTerm.
 * case:  <lines> <cols> <slrm> <colon> <rgb> <op>...     slrm = the DECRPM value the terminal answers the DECLRMM (mode 69)
 *        query with: 0 not recognised, 1 set, 2 reset, 3 permanently set, 4 permanently reset
 *   ops: G:l:c  M:d:r  P:hex (printn of all bytes)  p:hex (tickit_term_print)  n:hex:len (printn of the first len
 *        bytes of the NUL-terminated string)  f:hex (tickit_term_printf("%s", ...): the formatted result is these bytes)  E:n:me  K  S:t:l:h:w:d:r  c:<pen>  s:<pen>
 *        O:size (tickit_term_set_output_buffer)  F (tickit_term_flush)
 * Only the public API of term.c is called.  Output is flushed after every op, so with an output buffer the
 * chunking path of write_str is exercised while the observation stays "bytes written, in order".
 * observation: I:<start-up bytes> then per op <ret>:<bytes>, all hex ("-" = none). */
#include "xt_common.h"

int main(void)
{
  setvbuf(stdout, NULL, _IOLBF, 0);   /* a crash must not lose the lines of earlier cases */
  while(vh_next()) {
    if(vh_ntok < 5) { printf("ERR case\n"); continue; }
    int lines = vh_int(0), cols = vh_int(1), slrm = vh_int(2), colon = vh_int(3), rgb = vh_int(4);
    TickitTerm *tt = xt_build();
    if(!tt) { printf("ERR build\n"); continue; }
    tickit_term_set_size(tt, lines, cols);
    printf("I:"); xt_puthex();
    xt_probe(tt, slrm, 1, 2, 2, colon, rgb);
    if(xt_getcap(tt, "xterm.cap_csi_sub_colon") != !!colon ||
       xt_getcap(tt, "xterm.cap_rgb8") != !!rgb) {
      printf(" ERR probe\n"); tickit_term_unref(tt); continue;
    }
    for(int i = 5; i < vh_ntok; i++) {
      char *f[8];
      char kind = vh_tok[i][0];
      int nf = xt_split(vh_tok[i], f, 8);
      int ret = 1;
      xt_reset();
      switch(kind) {
        case 'G': if(nf < 3) goto bad; ret = tickit_term_goto(tt, atoi(f[1]), atoi(f[2])); break;
        case 'M': if(nf < 3) goto bad; tickit_term_move(tt, atoi(f[1]), atoi(f[2])); break;
        case 'P': {
          if(nf < 2) goto bad;
          size_t len; unsigned char *b = vh_hex(f[1], &len);
          tickit_term_printn(tt, (char *)b, len);
          free(b); break;
        }
        case 'p': {
          if(nf < 2) goto bad;
          size_t len; unsigned char *b = vh_hex(f[1], &len);
          tickit_term_print(tt, (char *)b);
          free(b); break;
        }
        case 'f': {
          if(nf < 2) goto bad;
          size_t len; unsigned char *b = vh_hex(f[1], &len);
          tickit_term_printf(tt, "%s", (char *)b);
          free(b); break;
        }
        case 'n': {
          if(nf < 3) goto bad;
          size_t len; unsigned char *b = vh_hex(f[1], &len);
          if((size_t)atoi(f[2]) > len) { free(b); goto bad; }
          tickit_term_printn(tt, (char *)b, atoi(f[2]));
          free(b); break;
        }
        case 'O': if(nf < 2) goto bad; tickit_term_set_output_buffer(tt, atoi(f[1])); break;
        case 'F': break;
        case 'E': if(nf < 3) goto bad; tickit_term_erasech(tt, atoi(f[1]), atoi(f[2])); break;
        case 'K': tickit_term_clear(tt); break;
        case 'S': {
          if(nf < 7) goto bad;
          TickitRect r = { .top = atoi(f[1]), .left = atoi(f[2]), .lines = atoi(f[3]), .cols = atoi(f[4]) };
          ret = tickit_term_scrollrect(tt, r, atoi(f[5]), atoi(f[6]));
          break;
        }
        case 'c': case 's': {
          if(nf < 2) goto bad;
          TickitPen *pen = xt_parse_pen(f[1]);
          if(kind == 'c') tickit_term_chpen(tt, pen); else tickit_term_setpen(tt, pen);
          tickit_pen_unref(pen);
          break;
        }
        default: goto bad;
      }
      tickit_term_flush(tt);
      printf(" %d:", ret ? 1 : 0); xt_puthex();
      continue;
bad:
      printf(" ERR");
    }
    printf("\n");
    tickit_term_unref(tt);
  }
  return 0;
}
