/* common.h -- shared helpers of the correspondence harnesses.  Each harness reads one
 * case per line from stdin and prints exactly one observation line per case. */
#ifndef VERIF_COMMON_H
#define VERIF_COMMON_H
#include <stdio.h>
#include <stdlib.h>
#include <string.h>
#include <stdbool.h>

#define MAXTOK 4096
static char  *vh_line = NULL;
static size_t vh_cap = 0;
static char  *vh_tok[MAXTOK];
static int    vh_ntok;

/* read a line, split at blanks; returns 0 at EOF */
static int vh_next(void)
{
  ssize_t n = getline(&vh_line, &vh_cap, stdin);
  if(n < 0) return 0;
  while(n > 0 && (vh_line[n-1] == '\n' || vh_line[n-1] == '\r')) vh_line[--n] = 0;
  vh_ntok = 0;
  char *save = NULL;
  for(char *t = strtok_r(vh_line, " ", &save); t && vh_ntok < MAXTOK; t = strtok_r(NULL, " ", &save))
    vh_tok[vh_ntok++] = t;
  return 1;
}
static long vh_int(int i) { return i < vh_ntok ? strtol(vh_tok[i], NULL, 10) : 0; }

/* decode a hex string into bytes (malloc'd, NUL appended); "-" = empty */
static unsigned char *vh_hex(const char *s, size_t *len)
{
  size_t n = strcmp(s, "-") == 0 ? 0 : strlen(s) / 2;
  unsigned char *b = malloc(n + 1);
  for(size_t i = 0; i < n; i++) { unsigned v; sscanf(s + 2*i, "%2x", &v); b[i] = v; }
  b[n] = 0; *len = n; return b;
}
static void vh_puthex(const unsigned char *b, size_t n)
{
  if(n == 0) { putchar('-'); return; }
  for(size_t i = 0; i < n; i++) printf("%02x", b[i]);
}
#endif
