/* C17 harness: see loopharness.h (the script language is shared with C18). */
#include "loopharness.h"
int main(void) { return loop_main(); }
