/* C08 harness: lifecycle explorer.  One case per stdin line, one observation line per case.
 *
 * Every case is run in a forked child, so that a sanitizer report, a SIGSEGV or an abort()
 * ends only that case; the parent turns the child's stderr into a one-word verdict
 * (UAF / NULL / WILD / OOB / DFREE / ABORT / UB / LEAK ...) followed by the index of the
 * top-level script step that was running (kept in shared memory) and, after '#', details
 * (sanitizer kind @ file : function) which the property module's canon() strips before
 * comparing with the model.
 *
 * Case kinds (first token):
 *   W <op> <op> ...      window-tree / restack-queue lifecycle script (modelled in Coq at heap level)
 *   T <kind> ...         copy-out into a caller buffer of exactly <len> bytes (malloc(len))
 *   O <op> <op> ...      lifecycle script over pens, strings, render buffers, terminals, toplevel
 *
 * window.c is #included (and excluded from the separately compiled sources) so that the
 * final dump can read the link fields, reference counts and the restack queue directly.
 */
#define _GNU_SOURCE
#include "tickit.h"
#include "tickit-mockterm.h"
#include "window.c"
#include "common.h"
#include <stdint.h>
#include <unistd.h>
#include <signal.h>
#include <poll.h>
#include <errno.h>
#include <fcntl.h>
#include <sys/mman.h>
#include <sys/wait.h>
/* declared by hand: gcc 12 ships lsan_interface.h but not allocator_interface.h */
void __sanitizer_print_stack_trace(void);
int __lsan_do_recoverable_leak_check(void);
int __sanitizer_install_malloc_and_free_hooks(void (*malloc_hook)(const volatile void *, size_t),
                                              void (*free_hook)(const volatile void *));

size_t __sanitizer_get_allocated_size(const volatile void *p);
/* ---- allocation accounting (exact, via the sanitizer's malloc/free hooks) ---- */
static volatile long n_live_blocks;
/* blocks of three particular sizes -- a TickitPen, a render buffer stack frame, the TickitString of
 * the text that the R cases draw -- are counted separately; the sizes are measured in the warm-up */
static size_t sz_last, sz_class[3];
static volatile long n_live_class[3];
/* with C08_TRACEALLOC set, remember what is outstanding, to say what a leak consists of */
#define NTRACK 8192
static struct { const volatile void *p; size_t sz; } track[NTRACK];
static int tracking;
static void hook_malloc(const volatile void *p, size_t sz)
{
  if(!p) return;
  n_live_blocks++;
  sz_last = sz;
  for(int i = 0; i < 3; i++) if(sz_class[i] && sz_class[i] == sz) n_live_class[i]++;
  if(tracking) for(int i = 0; i < NTRACK; i++) if(!track[i].p) { track[i].p = p; track[i].sz = sz; break; }
  if(tracking && getenv("C08_TRACESIZE") && (size_t)atol(getenv("C08_TRACESIZE")) == sz) {
    static int busy; if(!busy) { busy = 1; fprintf(stderr, "alloc of %zu bytes at:\n", sz); __sanitizer_print_stack_trace(); busy = 0; } }
}
static void hook_free(const volatile void *p)
{
  if(!p) return;
  n_live_blocks--;
  size_t sz = __sanitizer_get_allocated_size(p);
  for(int i = 0; i < 3; i++) if(sz_class[i] && sz_class[i] == sz) n_live_class[i]--;
  if(tracking) for(int i = 0; i < NTRACK; i++) if(track[i].p == p) { track[i].p = NULL; break; }
}
static void report_outstanding(void)
{
  if(!tracking) return;
  fprintf(stderr, "outstanding blocks:");
  for(int i = 0; i < NTRACK; i++) if(track[i].p) fprintf(stderr, " %zu", track[i].sz);
  fprintf(stderr, "\n");
}

/* LeakSanitizer's own (reachability based, ~6 ms) check is run to confirm every leak the exact
 * accounting sees, on every 8th other case, and on all cases when C08_LSAN_ALWAYS is set;
 * its verdict is printed after '#', as a cross-check for the reader */
static long case_no;
static int lsan_wanted(int leaked) { return leaked || case_no % 8 == 0 || getenv("C08_LSAN_ALWAYS") != NULL; }

/* ---- shared progress cell ---- */
struct shared { volatile int step; volatile int uninit; volatile int trlen; char trace[8192]; };
static struct shared *sh;

/* =====================================================================================
 * W scripts
 * ===================================================================================== */
#define MAXW 64
static TickitWindow *W[MAXW];
static int  nW;
static bool wdead[MAXW];
static int  dlog[4 * MAXW], ndlog;
static TickitTerm *wterm;

struct hdata { int kind; unsigned mask; int ret; char *actions; int depth; int cid; };
static struct hdata *HD[256];
static int nHD;

static int on_wdestroy(TickitWindow *w, TickitEventFlags fl, void *info, void *data)
{
  int i = (int)(intptr_t)data;
  wdead[i] = true;
  if(ndlog < 4 * MAXW) dlog[ndlog++] = i;
  return 0;
}

static void w_register(TickitWindow *w)
{
  if(nW >= MAXW) { printf("ERR too-many-windows\n"); fflush(stdout); _exit(0); }
  int i = nW++;
  W[i] = w; wdead[i] = false;
  tickit_window_bind_event(w, TICKIT_WINDOW_ON_DESTROY, 0, &on_wdestroy, (void *)(intptr_t)i);
}

static int widx(const TickitWindow *p)
{
  if(!p) return -1;
  for(int i = 0; i < nW; i++) if(!wdead[i] && W[i] == p) return i;
  for(int i = 0; i < nW; i++) if(W[i] == p) return i;
  return -2;
}

static void w_run_actions(const char *s, int depth);

static unsigned mouse_bit(int type)
{
  if(type >= 1 && type <= 4) return 1u << (type - 1);
  if(type >= 0x101 && type <= 0x104) return 1u << (type - 0x101 + 4);
  return 0;
}

#define ASAN_FILL 0xbebebebe
static int act_level;     /* how many handlers' calls are running inside each other */
static int on_wkey(TickitWindow *w, TickitEventFlags fl, void *info, void *data)
{
  struct hdata *h = data;
  if(h->depth > 6) return 0;
  h->depth++; act_level++;
  w_run_actions(h->actions, h->depth);
  h->depth--; act_level--;
  return h->ret;
}
/* the window whose DESTROY handler is running (innermost) and the nesting level of that handler's own calls, or -1 */
static int dying_win = -1, dying_level = -1;
static int on_wdestroy_calls(TickitWindow *w, TickitEventFlags fl, void *info, void *data)
{
  if(!(fl & TICKIT_EV_DESTROY)) return 0;
  int was = dying_win, was_level = dying_level;
  dying_win = widx(w); dying_level = act_level + 1;
  int r = on_wkey(w, fl, info, data);
  dying_win = was; dying_level = was_level;
  return r;
}
static int on_wmouse(TickitWindow *w, TickitEventFlags fl, void *_info, void *data)
{
  struct hdata *h = data;
  TickitMouseEventInfo *info = _info;
  /* ASan fills fresh heap memory with 0xbe: a press position that was never stored */
  if((unsigned)info->line == ASAN_FILL || (unsigned)info->col == ASAN_FILL || (unsigned)info->button == ASAN_FILL)
    sh->uninit = 1;
  if(!(h->mask & mouse_bit(info->type))) return 0;
  if(h->depth > 6) return 0;
  h->depth++; act_level++;
  w_run_actions(h->actions, h->depth);
  h->depth--; act_level--;
  return h->ret;
}

/* parse "<int>[.<int>[.<rest>]]" after the op letter */
static int p_int(const char **s)
{
  int v = 0, neg = 0;
  if(**s == '-') { neg = 1; (*s)++; }
  while(**s >= '0' && **s <= '9') { v = v * 10 + (**s - '0'); (*s)++; }
  if(**s == '.') (*s)++;
  return neg ? -v : v;
}

#define WRECT ((TickitRect){ .top = 0, .left = 0, .lines = 4, .cols = 8 })

static void w_emit_mouse(int type)
{
  TickitMouseEventInfo info = { .type = type, .button = 1, .line = 0, .col = 0, .mod = 0 };
  tickit_term_emit_mouse(wterm, &info);
}

/* every client call, top-level or from inside a handler, is appended to the trace before it runs */
static void trace_op(const char *op)
{
  size_t n = strlen(op);
  int at = sh->trlen;
  if(at + n + 2 >= sizeof sh->trace) return;
  if(at) sh->trace[at++] = ',';
  memcpy((char *)sh->trace + at, op, n);
  /* the pen calls are all "a call that reads these windows" to the discipline: one spelling in the trace */
  if(op[0] == 'z' || op[0] == 'P') ((char *)sh->trace)[at] = 'q';
  at += n;
  sh->trace[at] = 0;
  sh->trlen = at;
}

static void w_op(const char *op, int depth)
{
  const char *s = op + 1;
  /* a DESTROY handler is handed its window: what it does WITH THAT WINDOW (other than touching its reference count,
   * closing it or creating windows below it) is covered by the handler's contract, not by a reference of the client's:
   * such calls are made but are not part of the trace that the discipline judges */
  int own = dying_win >= 0 && act_level == dying_level && strchr("shtxgyqzPpNS", op[0]) && atoi(op + 1) == dying_win;
  if(own) ;
  else if(op[0] == 'b') { char t[24]; size_t n = strcspn(op, "."); if(n > 20) n = 20; memcpy(t, op, n); t[n] = 0; trace_op(t); }
  else if(op[0] != '-') trace_op(op);
  switch(op[0]) {
    case 'n': { int p = p_int(&s), f = p_int(&s);
      TickitWindow *w = tickit_window_new(W[p], WRECT, f); w_register(w); break; }
    case 'r': tickit_window_ref(W[p_int(&s)]); break;
    case 'u': tickit_window_unref(W[p_int(&s)]); break;
    case 'c': tickit_window_close(W[p_int(&s)]); break;
    case 'R': tickit_window_raise(W[p_int(&s)]); break;
    case 'L': tickit_window_lower(W[p_int(&s)]); break;
    case 'F': tickit_window_raise_to_front(W[p_int(&s)]); break;
    case 'B': tickit_window_lower_to_back(W[p_int(&s)]); break;
    case 's': tickit_window_show(W[p_int(&s)]); break;
    case 'h': tickit_window_hide(W[p_int(&s)]); break;
    case 't': tickit_window_take_focus(W[p_int(&s)]); break;
    case 'S': { int i = p_int(&s), v = p_int(&s); tickit_window_set_steal_input(W[i], v); break; }
    case 'x': tickit_window_expose(W[p_int(&s)], NULL); break;
    case 'g': (void)tickit_window_root(W[p_int(&s)]); break;
    case 'f': tickit_window_flush(W[p_int(&s)]); break;
    case 'k': { TickitKeyEventInfo info = { .type = TICKIT_KEYEV_TEXT, .mod = 0, .str = "A" };
      tickit_term_emit_key(wterm, &info); break; }
    case 'm': switch(op[1]) {
        case 'p': w_emit_mouse(TICKIT_MOUSEEV_PRESS); break;
        case 'd': w_emit_mouse(TICKIT_MOUSEEV_DRAG); break;
        case 'r': w_emit_mouse(TICKIT_MOUSEEV_RELEASE); break;
        case 'w': w_emit_mouse(TICKIT_MOUSEEV_WHEEL); break;
      } break;
    case 'b': {   /* b<i>.<k|m|e|f|g|d>.<maskhex>.<ret>.<actions> */
      int i = p_int(&s);
      struct hdata *h = malloc(sizeof *h);
      h->kind = *s++; if(*s == '.') s++;
      h->mask = (unsigned)strtoul(s, (char **)&s, 16); if(*s == '.') s++;
      h->ret = p_int(&s);
      h->actions = strdup(s); h->depth = 0;
      if(nHD >= 256) { printf("ERR too-many-handlers\n"); fflush(stdout); _exit(0); }
      HD[nHD++] = h;      /* handlers are numbered in the order they are bound */
      switch(h->kind) {
        case 'k': h->cid = tickit_window_bind_event(W[i], TICKIT_WINDOW_ON_KEY, 0, &on_wkey, h); break;
        case 'm': h->cid = tickit_window_bind_event(W[i], TICKIT_WINDOW_ON_MOUSE, 0, &on_wmouse, h); break;
        /* the other dispatching kinds: every bound handler of the kind runs, the return value is not looked at */
        case 'e': h->cid = tickit_window_bind_event(W[i], TICKIT_WINDOW_ON_EXPOSE, 0, &on_wkey, h); break;
        case 'f': h->cid = tickit_window_bind_event(W[i], TICKIT_WINDOW_ON_FOCUS, 0, &on_wkey, h); break;
        case 'g': h->cid = tickit_window_bind_event(W[i], TICKIT_WINDOW_ON_GEOMCHANGE, 0, &on_wkey, h); break;
        /* DESTROY handlers that make calls: in the model's variant fixedh (LifeDefs.v), outside the theorems */
        case 'd': h->cid = tickit_window_bind_event(W[i], TICKIT_WINDOW_ON_DESTROY, 0, &on_wdestroy_calls, h); break;
        default: printf("ERR handler-kind %s\n", op); fflush(stdout); _exit(0);
      }
      break; }
    case 'N': { int i = p_int(&s), v = p_int(&s); tickit_window_set_focus_child_notify(W[i], v); break; }
    case 'U': { int i = p_int(&s), n = p_int(&s);   /* unbind handler number n (bound on window i) */
      if(n < 0 || n >= nHD) { printf("ERR no-such-handler\n"); fflush(stdout); _exit(0); }
      tickit_window_unbind_event_id(W[i], HD[n]->cid); break; }
    case 'y': { int i = p_int(&s);                  /* a different size: GEOMCHANGE runs on the window itself */
      TickitRect r = tickit_window_get_geometry(W[i]);
      r.lines = r.lines == 4 ? 3 : 4;
      tickit_window_set_geometry(W[i], r); break; }
    case 'p': { int i = p_int(&s);                  /* tickit_window_reposition: one line up while the GEOMCHANGE handlers run */
      TickitWindow *w = W[i];
      tickit_window_reposition(w, -1, 0);
      if(!wdead[i]) w->rect.top = 0;                /* back in place without a second event */
      break; }
    case 'Z': {                                     /* the terminal grows by one line: on_term_resize resizes the root */
      int lines, cols; tickit_term_get_size(wterm, &lines, &cols);
      tickit_mockterm_resize((TickitMockTerm *)wterm, lines + 1, cols);
      if(!wdead[0]) tickit_window_expose(W[0], NULL);   /* ... and everything is redrawn: the damage stays one rectangle */
      break; }
    /* window pens: the window holds a reference on its pen; set_pen with the pen it already has, with another
     * window's pen, with NULL, with a fresh pen; scrollrect with a pen argument */
    case 'q': { int i = p_int(&s); tickit_window_set_pen(W[i], tickit_window_get_pen(W[i])); break; }
    case 'Q': { int i = p_int(&s), j = p_int(&s); tickit_window_set_pen(W[i], tickit_window_get_pen(W[j])); break; }
    case 'z': { int i = p_int(&s); tickit_window_set_pen(W[i], NULL); break; }
    case 'P': { int i = p_int(&s);
      TickitPen *pen = tickit_pen_new_attrs(TICKIT_PEN_FG, 2, TICKIT_PEN_BOLD, 1, 0);
      tickit_window_set_pen(W[i], pen); tickit_pen_unref(pen); break; }
    case 'o': { int i = p_int(&s), j = p_int(&s);
      TickitRect r = { .top = 0, .left = 0, .lines = 2, .cols = 8 };   /* full width: the damage stays one rectangle */
      tickit_window_scrollrect(W[i], &r, 1, 0, tickit_window_get_pen(W[j])); break; }
    case '-': break;   /* no-op */
    default: printf("ERR op %s\n", op); fflush(stdout); _exit(0);
  }
}

/* actions: ops joined by ','; nested handler bodies are not allowed inside actions */
static void w_run_actions(const char *s, int depth)
{
  char buf[64];
  while(*s) {
    size_t n = strcspn(s, ",");
    if(n == 0 || (n == 1 && s[0] == '-')) { s += n; if(*s == ',') s++; continue; }
    if(n >= sizeof buf) n = sizeof buf - 1;
    memcpy(buf, s, n); buf[n] = 0;
    w_op(buf, depth);
    s += n; if(*s == ',') s++;
  }
}

static const char chg_letter[] = "ILXRFlB";   /* INSERT_FIRST, INSERT_LAST, REMOVE, RAISE, RAISE_FRONT, LOWER, LOWER_BACK */

static void w_dump(void)
{
  printf("OK d=");
  if(!ndlog) printf("-");
  for(int i = 0; i < ndlog; i++) printf("%s%d", i ? "," : "", dlog[i]);
  printf(" w=");
  int any = 0;
  for(int i = 0; i < nW; i++) {
    if(wdead[i]) continue;
    TickitWindow *w = W[i];
    printf("%s%d:%d:%d:%d%d%d:", any++ ? ";" : "", i, widx(w->parent), w->refcount, w->is_visible, w->is_closed, w->steal_input);
    int k = 0;
    for(TickitWindow *c = w->first_child; c && k < 100; c = c->next)
      printf("%s%d", k++ ? "," : "", widx(c));
    if(!k) printf("-");
    printf(":%d", widx(w->focused_child));
  }
  if(!any) printf("-");
  printf(" q=");
  if(nW && !wdead[0]) {
    TickitRootWindow *root = WINDOW_AS_ROOT(W[0]);
    int k = 0;
    for(HierarchyChange *r = root->hierarchy_changes; r && k < 100; r = r->next)
      printf("%s%c%d.%d", k++ ? "," : "", chg_letter[r->change], widx(r->parent), widx(r->win));
    if(!k) printf("-");
    printf(" dr=%d", root->mouse_dragging ? widx(root->drag_source_window) : -3);
  }
  else
    printf("x dr=-3");
}

static void run_W(void)
{
  long base = n_live_blocks;
  wterm = tickit_mockterm_new(4, 8);
  nW = 0; ndlog = 0; nHD = 0;
  w_register(tickit_window_new_root(wterm));
  for(int i = 1; i < vh_ntok; i++) {
    sh->step = i - 1;
    w_op(vh_tok[i], 0);
  }
  sh->step = vh_ntok - 1;
  w_dump();
  /* teardown of what the harness itself owns; then nothing may remain */
  tickit_term_unref(wterm); wterm = NULL;
  for(int i = 0; i < nHD; i++) { free(HD[i]->actions); free(HD[i]); HD[i] = NULL; }
  memset(W, 0, sizeof W);
  long left = n_live_blocks - base;
  int lsan = lsan_wanted(left != 0) ? __lsan_do_recoverable_leak_check() : -1;
  printf(" leak=%d%s tr=%s # lsan=%d\n", left != 0, sh->uninit ? " UNINIT" : "", sh->trlen ? (char *)sh->trace : "-", lsan);
}

/* =====================================================================================
 * parent: fork per case, classify the child's end
 * ===================================================================================== */
static void classify(int status, const char *err, char *out, size_t outlen)
{
  const char *kind = "CRASH";
  char detail[256] = "";
  const char *e;
  if((e = strstr(err, "ERROR: AddressSanitizer: "))) {
    e += strlen("ERROR: AddressSanitizer: ");
    char k[64]; size_t n = strcspn(e, " \n"); if(n > 63) n = 63; memcpy(k, e, n); k[n] = 0;
    if(!strcmp(k, "heap-use-after-free")) kind = "UAF";
    else if(strstr(k, "buffer-overflow") || strstr(k, "buffer-underflow")) kind = "OOB";
    else if(!strcmp(k, "attempting")) kind = "DFREE";
    else if(!strcmp(k, "SEGV")) {
      const char *a = strstr(e, "unknown address 0x");
      unsigned long long addr = a ? strtoull(a + strlen("unknown address "), NULL, 16) : 1;
      kind = (addr < 4096 && !strstr(err, "high value address")) ? "NULL" : "WILD";
    }
    else kind = "ASAN";
    /* first frame inside the library sources */
    const char *f = err;
    char fn[96] = "?", file[96] = "?";
    while((f = strstr(f, " in "))) {
      f += 4;
      const char *eol = strchr(f, '\n'); if(!eol) eol = f + strlen(f);
      const char *src = strstr(f, "/src/");
      if(src && src < eol) {
        size_t n1 = strcspn(f, " \n"); if(n1 > 95) n1 = 95; memcpy(fn, f, n1); fn[n1] = 0;
        src += 5; size_t n2 = strcspn(src, ":\n"); if(n2 > 95) n2 = 95; memcpy(file, src, n2); file[n2] = 0;
        break;
      }
    }
    snprintf(detail, sizeof detail, "ASan:%s@%s:%s", k, file, fn);
  }
  else if((e = strstr(err, "runtime error: "))) {
    kind = strstr(e, "null pointer") ? "NULL" : "UB";
    e += strlen("runtime error: ");
    size_t n = strcspn(e, "\n"); if(n > 120) n = 120;
    snprintf(detail, sizeof detail, "UBSan:%.*s", (int)n, e);
    for(char *p = detail; *p; p++) if(*p == ' ') *p = '_';
  }
  else if(strstr(err, "ERROR: LeakSanitizer")) { kind = "LEAK"; snprintf(detail, sizeof detail, "LSan-at-exit"); }
  else if(WIFSIGNALED(status)) {
    int sig = WTERMSIG(status);
    kind = sig == SIGABRT ? "ABORT" : sig == SIGSEGV ? "SEGV" : sig == SIGALRM ? "TIMEOUT" : "SIGNAL";
    snprintf(detail, sizeof detail, "signal%d", sig);
    const char *o = strstr(err, "tickit_window");
    if(o) { size_t n = strcspn(o, "\n"); if(n > 60) n = 60; size_t l = strlen(detail);
            snprintf(detail + l, sizeof detail - l, ":%.*s", (int)n, o);
            for(char *p = detail; *p; p++) if(*p == ' ') *p = '_'; }
  }
  else snprintf(detail, sizeof detail, "exit%d", WEXITSTATUS(status));
  snprintf(out, outlen, "%s %d tr=%s # %s", kind, sh->step, sh->trlen ? (char *)sh->trace : "-", detail);
}

#define R_LINES 3
#define R_COLS 8
#define R_TEXT "abcdefgh"   /* R_COLS columns: a text or erase call of an R case covers a whole line */
static void warm_output(TickitTerm *tt, const char *bytes, size_t len, void *user) { }
static void run_T(void);
static void run_O(void);
static void run_R(void);

static void child_main(void)
{
  if(getenv("C08_TRACEALLOC")) tracking = 1;
  if(vh_ntok < 1) { printf("ERR empty\n"); return; }
  alarm(20);
  switch(vh_tok[0][0]) {
    case 'W': run_W(); break;
    case 'T': run_T(); break;
    case 'O': run_O(); break;
    case 'R': run_R(); break;
    default: printf("ERR kind\n");
  }
}

#include "C08_objs.inc"

int main(void)
{
  sh = mmap(NULL, sizeof *sh, PROT_READ | PROT_WRITE, MAP_SHARED | MAP_ANONYMOUS, -1, 0);
  __sanitizer_install_malloc_and_free_hooks(hook_malloc, hook_free);
  setvbuf(stdout, NULL, _IOFBF, 1 << 16);
  /* warm-up: lazily initialised statics (stdio, libtermkey, terminfo) exist before the baseline */
  {
    TickitTerm *t = tickit_mockterm_new(4, 8);
    TickitWindow *r = tickit_window_new_root(t);
    TickitWindow *c = tickit_window_new(r, WRECT, 0);
    tickit_window_flush(r);
    tickit_window_unref(c); tickit_window_unref(r); tickit_term_unref(t);
    /* get_termkey() of term.c goes through setenv("TERM", ...): libc's environment keeps
     * the string and a search-tree node for the rest of the process */
    const char *was = getenv("TERM");
    char *keep = was ? strdup(was) : NULL;
    setenv("TERM", "xterm", 1);
    if(keep) { setenv("TERM", keep, 1); free(keep); } else unsetenv("TERM");
    TickitTerm *x = tickit_term_build(&(struct TickitTermBuilder){ .termtype = "xterm", .output_func = warm_output });
    if(x) {
      Tickit *k = tickit_new_for_term(x);
      tickit_window_expose(tickit_get_rootwin(k), NULL);
      tickit_tick(k, TICKIT_RUN_NOHANG);
      tickit_unref(k);
    }
  }
  /* the block sizes that the R cases count */
  {
    TickitPen *pen = tickit_pen_new(); sz_class[0] = sz_last; tickit_pen_unref(pen);
    TickitRenderBuffer *rb = tickit_renderbuffer_new(1, 1);
    tickit_renderbuffer_save(rb); sz_class[1] = sz_last;
    tickit_renderbuffer_unref(rb);
    TickitString *str = tickit_string_new(R_TEXT, strlen(R_TEXT)); sz_class[2] = sz_last; tickit_string_unref(str);
    n_live_class[0] = n_live_class[1] = n_live_class[2] = 0;
  }
  /* make the sanitizer load its symbol tables once, here, so that the forked children inherit them */
  {
    int saved = dup(2), devnull = open("/dev/null", O_WRONLY);
    if(saved >= 0 && devnull >= 0) { dup2(devnull, 2); __sanitizer_print_stack_trace(); dup2(saved, 2); }
    if(saved >= 0) close(saved);
    if(devnull >= 0) close(devnull);
  }
  while(vh_next()) {
    fflush(stdout);
    int po[2], pe[2];
    if(pipe(po) || pipe(pe)) { printf("ERR pipe\n"); continue; }
    case_no++;
    sh->step = -1; sh->uninit = 0; sh->trlen = 0; sh->trace[0] = 0;
    pid_t pid = fork();
    if(pid < 0) { printf("ERR fork\n"); continue; }
    if(pid == 0) {
      close(po[0]); close(pe[0]);
      dup2(po[1], 1); dup2(pe[1], 2); close(po[1]); close(pe[1]);
      child_main();
      fflush(stdout);
      _exit(0);
    }
    close(po[1]); close(pe[1]);
    static char out[1 << 16], err[1 << 17];
    size_t no = 0, ne = 0;
    struct pollfd fds[2] = { { po[0], POLLIN, 0 }, { pe[0], POLLIN, 0 } };
    int open_fds = 2;
    while(open_fds > 0) {
      if(poll(fds, 2, -1) < 0) { if(errno == EINTR) continue; break; }
      for(int i = 0; i < 2; i++) {
        if(fds[i].fd < 0 || !(fds[i].revents & (POLLIN | POLLHUP | POLLERR))) continue;
        char *buf = i == 0 ? out : err; size_t *n = i == 0 ? &no : &ne; size_t cap = (i == 0 ? sizeof out : sizeof err) - 1;
        char tmp[4096];
        ssize_t r = read(fds[i].fd, *n < cap ? buf + *n : tmp, *n < cap ? cap - *n : sizeof tmp);
        if(r > 0) { if(*n < cap) *n += r; }
        else { close(fds[i].fd); fds[i].fd = -1; open_fds--; }
      }
    }
    out[no] = 0; err[ne] = 0;
    int status = 0;
    waitpid(pid, &status, 0);
    if(getenv("C08_TRACEALLOC")) fputs(err, stderr);
    if(WIFEXITED(status) && WEXITSTATUS(status) == 0 && no > 0 && out[no - 1] == '\n' && !strchr(out, '\n')[1]) {
      fputs(out, stdout);
    }
    else {
      char v[512];
      classify(status, err, v, sizeof v);
      if(getenv("C08_VERBOSE")) fprintf(stderr, "---- stderr of the child for case %s\n%s\n", vh_ntok ? vh_tok[0] : "", err);
      printf("%s\n", v);
    }
  }
  return 0;
}
