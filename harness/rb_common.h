/* rb_common.h -- the C side of the render-buffer correspondence checks (C03, C04, C13).
 *
 * A script interpreter on real TickitRenderBuffers.  src/renderbuffer.c is #included (and
 * excluded from the separately compiled sources) so that the raw span grid can be printed
 * next to what the public inspection API reports.  Case and observation formats are
 * described in ocaml/rb_common.ml; both sides must print byte-identical lines.
 *
 * Texts are passed to the library as UTF-8 in exact-size malloc'd buffers (textn with an
 * explicit length, no NUL) or NUL-terminated (text), alternating by the parity of the
 * number of code points, so that ASan sees any over-read.  get_cell_text is called with a
 * buffer of exactly the size the NULL-buffer call reported plus `slack` bytes (default 0).
 */
#ifndef RB_COMMON_H
#define RB_COMMON_H
#include "renderbuffer.c"
#include "mockterm.c"     /* also #included (and excluded from the separately compiled sources): the harness
                           * replaces the mock driver's erasech to offer BOTH legal behaviours of
                           * erasech(..., TICKIT_MAYBE) */
#include "common.h"
#include <unistd.h>

static int rbh_slack = 0;

/* ---- code points <-> UTF-8 ---- */
static size_t rbh_enc(long cp, unsigned char *o)
{
  if(cp < 0x80) { o[0] = cp; return 1; }
  if(cp < 0x800) { o[0] = 0xc0 | (cp >> 6); o[1] = 0x80 | (cp & 0x3f); return 2; }
  if(cp < 0x10000) { o[0] = 0xe0 | (cp >> 12); o[1] = 0x80 | ((cp >> 6) & 0x3f); o[2] = 0x80 | (cp & 0x3f); return 3; }
  o[0] = 0xf0 | (cp >> 18); o[1] = 0x80 | ((cp >> 12) & 0x3f); o[2] = 0x80 | ((cp >> 6) & 0x3f); o[3] = 0x80 | (cp & 0x3f); return 4;
}

/* "41.ff21" / "-" -> UTF-8 bytes in a malloc'd block of exactly *len bytes (+1 NUL iff nul) */
static char *rbh_text(const char *spec, size_t *len, int *ncps, bool nul)
{
  unsigned char tmp[4 * 256];
  size_t n = 0; int k = 0;
  if(strcmp(spec, "-") != 0) {
    const char *p = spec;
    while(*p && n + 4 < sizeof tmp) {
      char *e; long cp = strtol(p, &e, 16);
      n += rbh_enc(cp, tmp + n); k++;
      p = (*e == '.') ? e + 1 : e;
    }
  }
  char *b = malloc(n + (nul ? 1 : 0) + (n + (nul ? 1 : 0) == 0 ? 1 : 0));
  memcpy(b, tmp, n);
  if(nul) b[n] = 0;
  *len = n; if(ncps) *ncps = k;
  return b;
}

/* print UTF-8 bytes as code points "41.ff21" / "-" */
static void rbh_putcps(const unsigned char *s, size_t n)
{
  if(n == 0) { putchar('-'); return; }
  size_t i = 0; int first = 1;
  while(i < n) {
    unsigned c = s[i]; long cp; int k;
    if(c < 0x80) { cp = c; k = 1; }
    else if(c < 0xe0) { cp = c & 0x1f; k = 2; }
    else if(c < 0xf0) { cp = c & 0x0f; k = 3; }
    else { cp = c & 0x07; k = 4; }
    for(int j = 1; j < k && i + j < n; j++) cp = (cp << 6) | (s[i + j] & 0x3f);
    printf(first ? "%lx" : ".%lx", cp); first = 0;
    i += k;
  }
}

/* ---- pens ----
 * spec / print syntax: a sequence of  <letter><decimal>  in the fixed order
 *   f b (colours, optionally followed by #rrggbb = the RGB8 secondary) B(old) u(nder) i(talic)
 *   r(everse) s(trike) a(ltfont) k(blink) z(sizepos);   "-" = empty pen, "null" = NULL, "~" printed for NULL */
static const struct { char c; TickitPenAttr a; } rbh_pattr[] = {
  { 'f', TICKIT_PEN_FG }, { 'b', TICKIT_PEN_BG }, { 'B', TICKIT_PEN_BOLD }, { 'u', TICKIT_PEN_UNDER },
  { 'i', TICKIT_PEN_ITALIC }, { 'r', TICKIT_PEN_REVERSE }, { 's', TICKIT_PEN_STRIKE }, { 'a', TICKIT_PEN_ALTFONT },
  { 'k', TICKIT_PEN_BLINK }, { 'z', TICKIT_PEN_SIZEPOS },
};
#define RBH_NPATTR ((int)(sizeof rbh_pattr / sizeof rbh_pattr[0]))

static TickitPen *rbh_pen(const char *spec)
{
  if(strcmp(spec, "null") == 0) return NULL;
  TickitPen *pen = tickit_pen_new();
  if(strcmp(spec, "-") == 0) return pen;
  const char *p = spec;
  while(*p) {
    char c = *p++; char *e; long v = strtol(p, &e, 10); p = e;
    TickitPenAttr a = 0;
    for(int i = 0; i < RBH_NPATTR; i++) if(rbh_pattr[i].c == c) a = rbh_pattr[i].a;
    if(!a) break;
    switch(tickit_penattr_type(a)) {
      case TICKIT_PENTYPE_BOOL:   tickit_pen_set_bool_attr(pen, a, v != 0); break;
      case TICKIT_PENTYPE_INT:    tickit_pen_set_int_attr(pen, a, v); break;
      case TICKIT_PENTYPE_COLOUR:
        tickit_pen_set_colour_attr(pen, a, v);
        if(*p == '#') {
          unsigned r, g, bl;
          if(sscanf(p + 1, "%2x%2x%2x", &r, &g, &bl) == 3)
            tickit_pen_set_colour_attr_rgb8(pen, a, (TickitPenRGB8){ .r = r, .g = g, .b = bl });
          p += 7;
        }
        break;
    }
  }
  return pen;
}

static void rbh_putattr(const TickitPen *pen, int i)
{
  TickitPenAttr a = rbh_pattr[i].a;
  switch(tickit_penattr_type(a)) {
    case TICKIT_PENTYPE_BOOL:   printf("%c%d", rbh_pattr[i].c, tickit_pen_get_bool_attr(pen, a) ? 1 : 0); break;
    case TICKIT_PENTYPE_INT:    printf("%c%d", rbh_pattr[i].c, tickit_pen_get_int_attr(pen, a)); break;
    case TICKIT_PENTYPE_COLOUR:
      printf("%c%d", rbh_pattr[i].c, tickit_pen_get_colour_attr(pen, a));
      if(tickit_pen_has_colour_attr_rgb8(pen, a)) {
        TickitPenRGB8 c = tickit_pen_get_colour_attr_rgb8(pen, a);
        printf("#%02x%02x%02x", c.r, c.g, c.b);
      }
      break;
  }
}

/* exact has/value form */
static void rbh_putpen(const TickitPen *pen)
{
  if(!pen) { putchar('~'); return; }
  int any = 0;
  for(int i = 0; i < RBH_NPATTR; i++)
    if(tickit_pen_has_attr(pen, rbh_pattr[i].a)) { rbh_putattr(pen, i); any = 1; }
  if(!any) putchar('-');
}

/* ---- buffers and the shadow of "cursor was set when this frame was saved" ---- */
#define RBH_MAXDEPTH 4096
typedef struct {
  TickitRenderBuffer *rb;
  unsigned char shadow[RBH_MAXDEPTH];  /* shadow[i] for the frame at depth i+1 */
} RbhBuf;

static void rbh_sync(RbhBuf *b) { (void)b; }

static void rbh_putrect(const TickitRect *r) { printf("%d,%d,%d,%d", r->top, r->left, r->lines, r->cols); }

static void rbh_putaux(RbhBuf *b)
{
  TickitRenderBuffer *rb = b->rb;
  if(rb->vc_pos_set) printf("c1:%d,%d", rb->vc_line, rb->vc_col); else printf("c0");
  printf(";x%d,%d;k", rb->xlate_line, rb->xlate_col);
  rbh_putrect(&rb->clip);
  printf(";p"); rbh_putpen(rb->pen);
  printf(";d%d;s", rb->depth);
  int d = rb->depth, first = 1;
  for(RBStack *st = rb->stack; st; st = st->prev, d--) {
    if(!first) putchar('|');
    first = 0;
    if(st->pen_only) { putchar('P'); rbh_putpen(st->pen); continue; }
    int set = (d >= 1 && d <= RBH_MAXDEPTH) ? b->shadow[d - 1] : 0;
    if(set) printf("F1:%d,%d", st->vc_line, st->vc_col); else printf("F0");
    printf(";%d,%d;", st->xlate_line, st->xlate_col);
    rbh_putrect(&st->clip);
    putchar(';'); rbh_putpen(st->pen);
  }
}

static void rbh_putraw(TickitRenderBuffer *rb)
{
  for(int line = 0; line < rb->lines; line++) {
    if(line) putchar('/');
    for(int col = 0; col < rb->cols; col++) {
      RBCell *c = &rb->cells[line][col];
      if(col) putchar(',');
      switch(c->state) {
        case CONT:  printf("C%d", c->startcol); break;
        case SKIP:  printf("S%d", c->cols); break;
        case TEXT:
          printf("T%d:", c->cols); rbh_putpen(c->pen); putchar(':');
          rbh_putcps((const unsigned char *)tickit_string_get(c->v.text.s), tickit_string_len(c->v.text.s));
          printf(":%d", c->v.text.offs);
          break;
        case ERASE: printf("E%d:", c->cols); rbh_putpen(c->pen); break;
        case LINE:  printf("L%d:", c->cols); rbh_putpen(c->pen); printf(":%d", c->v.line.mask); break;
        case CHAR:  printf("H%d:", c->cols); rbh_putpen(c->pen); printf(":%x", (unsigned)c->v.chr.codepoint); break;
        default:    printf("?%d", (int)c->state);
      }
      if(c->maskdepth != -1) printf("m%d", c->maskdepth);
    }
  }
}

/* the inspection API, at neutral translation and clip (set directly, restored afterwards) */
static void rbh_putapi(TickitRenderBuffer *rb)
{
  int sxl = rb->xlate_line, sxc = rb->xlate_col; TickitRect sclip = rb->clip;
  rb->xlate_line = rb->xlate_col = 0;
  tickit_rect_init_sized(&rb->clip, 0, 0, rb->lines, rb->cols);
  for(int line = 0; line < rb->lines; line++) {
    if(line) putchar('/');
    for(int col = 0; col < rb->cols; col++) {
      if(col) putchar(',');
      int active = tickit_renderbuffer_get_cell_active(rb, line, col);
      if(active != 1) { printf("%d", active); continue; }
      printf("1:");
      rbh_putpen(tickit_renderbuffer_get_cell_pen(rb, line, col));
      putchar(':');
      TickitRenderBufferLineMask lm = tickit_renderbuffer_get_cell_linemask(rb, line, col);
      int mask = (lm.north << NORTH_SHIFT) | (lm.east << EAST_SHIFT) | (lm.south << SOUTH_SHIFT) | (lm.west << WEST_SHIFT);
      /* is it a LINE cell?  (its text is the glyph, which C04 checks) */
      RBCell *c = &rb->cells[line][col];
      if(c->state == CONT) c = &rb->cells[line][c->startcol];
      if(c->state == LINE) { printf("-:%d", mask); continue; }
      size_t need = tickit_renderbuffer_get_cell_text(rb, line, col, NULL, 0);
      if(need == (size_t)-1) { printf("!:%d", mask); continue; }
      char *buf = malloc(need + rbh_slack + (need + rbh_slack == 0 ? 1 : 0));
      size_t got = tickit_renderbuffer_get_cell_text(rb, line, col, buf, need + rbh_slack);
      if(got != need) printf("!%zd", (ssize_t)got);
      else rbh_putcps((unsigned char *)buf, got);
      free(buf);
      printf(":%d", mask);
    }
  }
  rb->xlate_line = sxl; rb->xlate_col = sxc; rb->clip = sclip;
}

static void rbh_dump(RbhBuf *b)
{
  printf("D{"); rbh_putaux(b); printf("}{"); rbh_putraw(b->rb); printf("}{"); rbh_putapi(b->rb); printf("}");
}

/* ---- flushing (C04) ---- */
static void rbh_putpen_canon(const TickitPen *pen)
{
  /* every attribute as the getters report it (defaults for absent ones) */
  for(int i = 0; i < RBH_NPATTR; i++) rbh_putattr(pen, i);
}

/* the mock driver with an erasech whose MAYBE leaves the cursor in place (as xterm's ECH does) */
static bool rbh_erasech_stay(TickitTermDriver *ttd, int count, TickitMaybeBool moveend)
{
  MockTermDriver *mtd = (MockTermDriver *)ttd;
  int col = mtd->col;
  bool ret = mtd_erasech(ttd, count, moveend);
  if(moveend == TICKIT_MAYBE)
    mtd->col = col;
  return ret;
}
/* the mock driver's print never returns when handed bytes that are not valid UTF-8 text (its
 * grapheme loop makes no progress); refuse such a print and make it visible instead */
static int rbh_badprint;
static bool rbh_print_checked(TickitTermDriver *ttd, const char *str, size_t len)
{
  TickitStringPos pos;
  if(len == 0 || tickit_utf8_ncount(str, len, &pos, NULL) == (size_t)-1 || pos.bytes != len) {
    rbh_badprint++;
    return true;
  }
  return mtd_print(ttd, str, len);
}
static TickitTermDriverVTable rbh_stay_vtable;

/* fl / flm tl tc gl gc P: flush onto a tl x tc mock terminal that shows a sentinel pattern, has
 * its cursor at (gl, gc) and pen P; prints F{operation log}{final grid}.  maybe_moves = 0: the
 * terminal's erasech(MAYBE) does not move the cursor */
static void rbh_flush_mock(TickitRenderBuffer *rb, int tl, int tc, int gl, int gc, const char *penspec, int maybe_moves)
{
  TickitMockTerm *mt = tickit_mockterm_new(tl, tc);
  TickitTerm *tt = (TickitTerm *)mt;
  rbh_stay_vtable = mtd_vtable;
  rbh_stay_vtable.print = rbh_print_checked;
  if(!maybe_moves)
    rbh_stay_vtable.erasech = rbh_erasech_stay;
  tickit_term_get_driver(tt)->vtable = &rbh_stay_vtable;
  rbh_badprint = 0;
  for(int l = 0; l < tl; l++) {
    tickit_term_goto(tt, l, 0);
    for(int c = 0; c < tc; c++) {
      TickitPen *sp = tickit_pen_new();
      tickit_pen_set_colour_attr(sp, TICKIT_PEN_FG, 16 + (l + 2 * c) % 5);
      tickit_term_setpen(tt, sp);
      tickit_pen_unref(sp);
      char ch[2] = { 'a' + (l * 7 + c * 3) % 26, 0 };
      tickit_term_print(tt, ch);
    }
  }
  tickit_term_goto(tt, gl, gc);
  TickitPen *prior = rbh_pen(penspec);
  if(!prior) prior = tickit_pen_new();
  tickit_term_setpen(tt, prior);
  tickit_pen_unref(prior);
  tickit_mockterm_clearlog(mt);

  tickit_renderbuffer_flush_to_term(rb, tt);

  printf("F{");
  if(rbh_badprint) printf("BADPRINT%d,", rbh_badprint);
  int n = tickit_mockterm_loglen(mt);
  for(int i = 0; i < n; i++) {
    TickitMockTermLogEntry *e = tickit_mockterm_peeklog(mt, i);
    if(i) putchar(',');
    switch(e->type) {
      case LOG_GOTO:    printf("G%d.%d", e->val1, e->val2); break;
      case LOG_PRINT:   putchar('T'); rbh_putcps((const unsigned char *)e->str, e->val1); break;
      case LOG_ERASECH: printf("X%d.%d", e->val1, e->val2 == TICKIT_YES ? 1 : 0); break;
      case LOG_SETPEN:  putchar('P'); rbh_putpen_canon(e->pen); break;
      default:          printf("?%d", (int)e->type);
    }
  }
  printf("}{");
  for(int l = 0; l < tl; l++) {
    if(l) putchar('/');
    for(int c = 0; c < tc; c++) {
      if(c) putchar(',');
      size_t need = tickit_mockterm_get_display_text(mt, NULL, 0, l, c, 1);
      char *buf = malloc(need + 1);
      tickit_mockterm_get_display_text(mt, buf, need + 1, l, c, 1);
      rbh_putcps((unsigned char *)buf, need);
      free(buf);
      putchar(':');
      rbh_putpen_canon(tickit_mockterm_get_display_pen(mt, l, c));
    }
  }
  printf("}");
  tickit_mockterm_destroy(mt);
}

/* the sentinel pattern on a fresh mock terminal */
static void rbh_sentinel(TickitTerm *tt, int tl, int tc)
{
  for(int l = 0; l < tl; l++) {
    tickit_term_goto(tt, l, 0);
    for(int c = 0; c < tc; c++) {
      TickitPen *sp = tickit_pen_new();
      tickit_pen_set_colour_attr(sp, TICKIT_PEN_FG, 16 + (l + 2 * c) % 5);
      tickit_term_setpen(tt, sp);
      tickit_pen_unref(sp);
      char ch[2] = { 'a' + (l * 7 + c * 3) % 26, 0 };
      tickit_term_print(tt, ch);
    }
  }
}

static void rbh_putgrid(TickitMockTerm *mt, int tl, int tc)
{
  for(int l = 0; l < tl; l++) {
    if(l) putchar('/');
    for(int c = 0; c < tc; c++) {
      if(c) putchar(',');
      size_t need = tickit_mockterm_get_display_text(mt, NULL, 0, l, c, 1);
      char *buf = malloc(need + 1);
      tickit_mockterm_get_display_text(mt, buf, need + 1, l, c, 1);
      rbh_putcps((unsigned char *)buf, need);
      free(buf);
      putchar(':');
      rbh_putpen_canon(tickit_mockterm_get_display_pen(mt, l, c));
    }
  }
}

/* tp tl tc gl gc text: print `text` (exact length, no NUL appended) on a tl x tc mock terminal
 * showing the sentinel pattern with its cursor at (gl, gc), through the mock driver's own print
 * (no validity wrapper); prints P{cursor line.col}{final grid} */
static void rbh_term_print(int tl, int tc, int gl, int gc, const char *textspec)
{
  TickitMockTerm *mt = tickit_mockterm_new(tl, tc);
  TickitTerm *tt = (TickitTerm *)mt;
  rbh_sentinel(tt, tl, tc);
  tickit_term_goto(tt, gl, gc);
  TickitPen *prior = tickit_pen_new();
  tickit_term_setpen(tt, prior);
  tickit_pen_unref(prior);
  size_t len; char *b = rbh_text(textspec, &len, NULL, false);
  tickit_term_printn(tt, b, len);
  free(b);
  MockTermDriver *mtd = (MockTermDriver *)tickit_term_get_driver(tt);
  printf("P{%d.%d}{", mtd->line, mtd->col);
  rbh_putgrid(mt, tl, tc);
  printf("}");
  tickit_mockterm_destroy(mt);
}

/* flx tl tc: flush through the xterm driver into a byte buffer; prints X{payload}, the bytes
 * received with control sequences stripped, as code points */
typedef struct { unsigned char *b; size_t n, cap; } RbhBytes;
static void rbh_collect(TickitTerm *tt, const char *bytes, size_t len, void *user)
{
  RbhBytes *o = user;
  if(!bytes || !len) return;     /* tickit_term_destroy announces the end with (NULL, 0) */
  if(o->n + len + 1 > o->cap) { o->cap = 2 * (o->n + len + 1); o->b = realloc(o->b, o->cap); }
  memcpy(o->b + o->n, bytes, len); o->n += len;
}
static void rbh_flush_xterm(TickitRenderBuffer *rb, int tl, int tc)
{
  RbhBytes out = { NULL, 0, 0 };
  TickitTerm *tt = tickit_term_build(&(struct TickitTermBuilder){
    .termtype = "xterm", .output_func = rbh_collect, .output_func_user = &out });
  tickit_term_set_size(tt, tl, tc);
  tickit_term_flush(tt);
  out.n = 0;
  tickit_renderbuffer_flush_to_term(rb, tt);
  tickit_term_flush(tt);
  /* strip ESC [ ... final and two-byte ESC sequences */
  unsigned char *p = malloc(out.n + 1); size_t k = 0;
  for(size_t i = 0; i < out.n; i++) {
    if(out.b[i] == 0x1b) {
      if(i + 1 < out.n && out.b[i + 1] == '[') {
        i += 2;
        while(i < out.n && !(out.b[i] >= 0x40 && out.b[i] <= 0x7e)) i++;
      }
      else i++;
      continue;
    }
    p[k++] = out.b[i];
  }
  printf("X{"); rbh_putcps(p, k); printf("}");
  free(p);
  tickit_term_unref(tt);      /* teardown still writes to the output function */
  free(out.b);
}

/* ---- the interpreter ---- */
static int rbh_sep;           /* a blank is due before the next output token */
static void rbh_tok(void) { if(rbh_sep) putchar(' '); rbh_sep = 1; }

#define ARG(i) vh_int(p + (i))
#define RECT(i) (TickitRect){ .top = ARG(i), .left = ARG((i)+1), .lines = ARG((i)+2), .cols = ARG((i)+3) }

/* property-specific extension ops: return the number of argument tokens consumed, or -1 */
static int rbh_ext(RbhBuf *bufs, int *cur, const char *kw, int p);

static void rbh_shadow_push(RbhBuf *b, int set)
{
  int d = b->rb->depth;      /* depth after the push */
  if(d >= 1 && d <= RBH_MAXDEPTH) b->shadow[d - 1] = set;
}

static void rbh_run_case(void)
{
  RbhBuf bufs[2];
  memset(bufs, 0, sizeof bufs);
  bufs[0].rb = tickit_renderbuffer_new(vh_int(0), vh_int(1));
  bufs[1].rb = tickit_renderbuffer_new(0, 0);
  int cur = 0;
  rbh_sep = 0; rbh_slack = 0;
  int p = 2;
  while(p < vh_ntok) {
    const char *kw = vh_tok[p++];
    RbhBuf *b = &bufs[cur];
    TickitRenderBuffer *rb = b->rb;
    if(!strcmp(kw, "tr")) { tickit_renderbuffer_translate(rb, ARG(0), ARG(1)); p += 2; }
    else if(!strcmp(kw, "cl")) { TickitRect r = RECT(0); tickit_renderbuffer_clip(rb, &r); p += 4; }
    else if(!strcmp(kw, "mk")) { TickitRect r = RECT(0); tickit_renderbuffer_mask(rb, &r); p += 4; }
    else if(!strcmp(kw, "pen")) { TickitPen *pen = rbh_pen(vh_tok[p]); tickit_renderbuffer_setpen(rb, pen); if(pen) tickit_pen_unref(pen); p += 1; }
    else if(!strcmp(kw, "go")) { tickit_renderbuffer_goto(rb, ARG(0), ARG(1)); p += 2; }
    else if(!strcmp(kw, "ug")) tickit_renderbuffer_ungoto(rb);
    else if(!strcmp(kw, "sv")) { int set = tickit_renderbuffer_has_cursorpos(rb); tickit_renderbuffer_save(rb); rbh_shadow_push(b, set); }
    else if(!strcmp(kw, "sp")) { tickit_renderbuffer_savepen(rb); rbh_shadow_push(b, 0); }
    else if(!strcmp(kw, "rs")) tickit_renderbuffer_restore(rb);
    else if(!strcmp(kw, "rst")) tickit_renderbuffer_reset(rb);
    else if(!strcmp(kw, "ska")) { tickit_renderbuffer_skip_at(rb, ARG(0), ARG(1), ARG(2)); p += 3; }
    else if(!strcmp(kw, "sk")) { tickit_renderbuffer_skip(rb, ARG(0)); p += 1; }
    else if(!strcmp(kw, "skt")) { tickit_renderbuffer_skip_to(rb, ARG(0)); p += 1; }
    else if(!strcmp(kw, "skr")) { TickitRect r = RECT(0); tickit_renderbuffer_skiprect(rb, &r); p += 4; }
    else if(!strcmp(kw, "txa") || !strcmp(kw, "tx")) {
      int at = !strcmp(kw, "txa");
      const char *spec = vh_tok[p + (at ? 2 : 0)];
      size_t len; int ncps;
      char *probe = rbh_text(spec, &len, &ncps, true); free(probe);
      bool nul = (ncps % 2) == 0;
      char *t = rbh_text(spec, &len, &ncps, nul);
      int ret;
      if(at) ret = nul ? tickit_renderbuffer_text_at(rb, ARG(0), ARG(1), t) : tickit_renderbuffer_textn_at(rb, ARG(0), ARG(1), t, len);
      else   ret = nul ? tickit_renderbuffer_text(rb, t) : tickit_renderbuffer_textn(rb, t, len);
      free(t);
      rbh_tok(); printf("r%d", ret);
      p += at ? 3 : 1;
    }
    else if(!strcmp(kw, "era")) { tickit_renderbuffer_erase_at(rb, ARG(0), ARG(1), ARG(2)); p += 3; }
    else if(!strcmp(kw, "er")) { tickit_renderbuffer_erase(rb, ARG(0)); p += 1; }
    else if(!strcmp(kw, "ert")) { tickit_renderbuffer_erase_to(rb, ARG(0)); p += 1; }
    else if(!strcmp(kw, "err")) { TickitRect r = RECT(0); tickit_renderbuffer_eraserect(rb, &r); p += 4; }
    else if(!strcmp(kw, "clr")) tickit_renderbuffer_clear(rb);
    else if(!strcmp(kw, "cha")) { tickit_renderbuffer_char_at(rb, ARG(0), ARG(1), strtol(vh_tok[p + 2], NULL, 16)); p += 3; }
    else if(!strcmp(kw, "ch")) { tickit_renderbuffer_char(rb, strtol(vh_tok[p], NULL, 16)); p += 1; }
    else if(!strcmp(kw, "hl")) { tickit_renderbuffer_hline_at(rb, ARG(0), ARG(1), ARG(2), ARG(3), ARG(4)); p += 5; }
    else if(!strcmp(kw, "vl")) { tickit_renderbuffer_vline_at(rb, ARG(0), ARG(1), ARG(2), ARG(3), ARG(4)); p += 5; }
    else if(!strcmp(kw, "D")) { rbh_tok(); rbh_dump(b); }
    else if(!strcmp(kw, "slack")) { rbh_slack = ARG(0); p += 1; }
    else if(!strcmp(kw, "nb")) {
      tickit_renderbuffer_unref(bufs[1].rb);
      memset(&bufs[1], 0, sizeof bufs[1]);
      bufs[1].rb = tickit_renderbuffer_new(ARG(0), ARG(1)); p += 2;
    }
    else if(!strcmp(kw, "buf")) { cur = ARG(0) ? 1 : 0; p += 1; }
    else if(!strcmp(kw, "cp") || !strcmp(kw, "mv")) {
      TickitRect d = RECT(0), r = RECT(4);
      if(kw[0] == 'c') tickit_renderbuffer_copyrect(rb, &d, &r); else tickit_renderbuffer_moverect(rb, &d, &r);
      p += 8;
    }
    else if(!strcmp(kw, "blit")) tickit_renderbuffer_blit(rb, bufs[1 - cur].rb);
    else if(!strcmp(kw, "fl")) { rbh_tok(); rbh_flush_mock(rb, ARG(0), ARG(1), ARG(2), ARG(3), vh_tok[p + 4], 1); p += 5; }
    else if(!strcmp(kw, "flm")) { rbh_tok(); rbh_flush_mock(rb, ARG(0), ARG(1), ARG(2), ARG(3), vh_tok[p + 4], 0); p += 5; }
    else if(!strcmp(kw, "flx")) { rbh_tok(); rbh_flush_xterm(rb, ARG(0), ARG(1)); p += 2; }
    else if(!strcmp(kw, "tp")) { rbh_tok(); rbh_term_print(ARG(0), ARG(1), ARG(2), ARG(3), vh_tok[p + 4]); p += 5; }
    else if(!strcmp(kw, "lct")) {
      rbh_tok(); printf("L{");
      for(int i = 0; i < 256; i++) printf(i ? ".%x" : "%x", (unsigned)linemask_to_char[i]);
      printf("}");
    }
    else {
      int n = rbh_ext(bufs, &cur, kw, p);
      if(n < 0) { rbh_tok(); printf("ERR-op-%s", kw); break; }
      p += n;
    }
  }
  putchar('\n');
  fflush(stdout);
  tickit_renderbuffer_unref(bufs[0].rb);
  tickit_renderbuffer_unref(bufs[1].rb);
}

static int rbh_main(void)
{
  while(vh_next()) {
    if(vh_ntok < 2) { printf("ERR case\n"); continue; }
    /* watchdog: a case that loops (e.g. the mock terminal never finishes printing a NUL byte)
     * is killed by SIGALRM and reported as the crash of that case */
    alarm(3);
    rbh_run_case();
    alarm(0);
  }
  return 0;
}
#endif
