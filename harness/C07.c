/* C07 harness: runs the library's src/utf8.c (included, so that the static tables and
 * tickit_utf8_wcwidth of unicode.h are reachable) on one case per line.
 *
 * Every string handed to the library is placed so that its LAST PERMITTED BYTE (the NUL of a
 * terminated string, byte len-1 of a length-bounded one) is the last byte before a PROT_NONE
 * guard page: any read past the terminator / the given length is a SIGSEGV, which the
 * sanitizer runtime reports and the core turns into the observation `CRASH ...`.
 *
 * Cases
 *   T                          print the compiled combining[] and fullwidth[] tables
 *   P lo hi                    for every cp in [lo,hi): put + ncount + count (+ short / NULL put),
 *                              run-length encoded, plus a hash of all encoded bytes
 *   C hex len pb pc pg pw lim  tickit_utf8_ncountmore / countmore from pos (pb,pc,pg,pw);
 *                              len = -1: NUL-terminated; lim = n (NULL) or b,c,g,w
 *   R hex len lim1 lim2        count(lim1); countmore(lim2) from there; count(lim2)
 *   M hex / B hex n / K hex c  mbswidth / byte2col / col2byte
 *   U cp len null              tickit_utf8_put into a len-byte buffer (or NULL)
 *   S cp                       tickit_utf8_seqlen
 *   W cp                       tickit_utf8_wcwidth (static, reached through the #include)
 */
#define _GNU_SOURCE
#include "tickit.h"
#include "utf8.c"
#include "common.h"
#include <sys/mman.h>
#include <unistd.h>

static unsigned char *guard_end;   /* first byte of the PROT_NONE page */
#define AREA_PAGES 4

static void guard_init(void)
{
  long ps = sysconf(_SC_PAGESIZE);
  unsigned char *m = mmap(NULL, (AREA_PAGES + 1) * ps, PROT_READ|PROT_WRITE, MAP_PRIVATE|MAP_ANONYMOUS, -1, 0);
  if(m == MAP_FAILED) { perror("mmap"); exit(2); }
  if(mprotect(m + AREA_PAGES * ps, ps, PROT_NONE) != 0) { perror("mprotect"); exit(2); }
  guard_end = m + AREA_PAGES * ps;
}

/* n bytes ending exactly at the guard page */
static unsigned char *guard_place(const unsigned char *src, size_t n)
{
  unsigned char *p = guard_end - n;
  if(n) memcpy(p, src, n);
  return p;
}

static int parse_limit(const char *s, TickitStringPos *l)
{
  if(strcmp(s, "n") == 0) return 0;
  long b, c, g, w;
  if(sscanf(s, "%ld,%ld,%ld,%ld", &b, &c, &g, &w) != 4) return -1;
  l->bytes = (size_t)b; l->codepoints = c; l->graphemes = g; l->columns = w;
  return 1;
}

static void pr_res(size_t ret, const TickitStringPos *p)
{
  printf("%ld %ld %d %d %d", (long)ret, (long)p->bytes, p->codepoints, p->graphemes, p->columns);
}

/* place the string of a case: terminated (len == -1) or bounded */
static const char *place(const unsigned char *bytes, size_t n, long len)
{
  if(len == -1) {
    unsigned char *p = guard_place(bytes, n + 1);   /* bytes[n] == 0 from vh_hex */
    return (const char *)p;
  }
  return (const char *)guard_place(bytes, n);
}

static void do_tables(void)
{
  int nc = sizeof(combining) / sizeof(combining[0]);
  int nf = sizeof(fullwidth) / sizeof(fullwidth[0]);
  printf("comb %d", nc);
  for(int i = 0; i < nc; i++) printf(" %d %d", combining[i].first, combining[i].last);
  printf(" ; full %d", nf);
  for(int i = 0; i < nf; i++) printf(" %d %d", fullwidth[i].first, fullwidth[i].last);
  printf("\n");
}

static void do_sweep(long lo, long hi)
{
  unsigned long long h = 1469598103934665603ULL;
  char prev[256] = "", cur[256];
  printf("@");   /* hash printed at the end; keep the line one token stream */
  for(long cp = lo; cp < hi; cp++) {
    int n = tickit_utf8_seqlen(cp);
    /* A: exactly n bytes before the guard page, length-bounded count */
    unsigned char *a = guard_end - n;
    memset(a, 0xEE, n);
    size_t r = tickit_utf8_put((char *)a, n, cp);
    for(int i = 0; i < n; i++) { h ^= a[i]; h *= 1099511628211ULL; h &= 0x3fffffffffffffffULL; }
    TickitStringPos pa, pb;
    memset(&pa, 0x55, sizeof pa); memset(&pb, 0x55, sizeof pb);
    size_t ra = tickit_utf8_ncount((char *)a, n, &pa, NULL);
    /* short buffer: n-1 bytes before the guard page: must return -1 and write nothing */
    unsigned char save[8]; memcpy(save, a, n);
    size_t rs = tickit_utf8_put((char *)a + 1, n - 1, cp);
    int untouched = memcmp(save, a, n) == 0;
    size_t rn = tickit_utf8_put(NULL, 0, cp);
    /* B: n bytes + NUL before the guard page, terminated count */
    unsigned char *b = guard_end - n - 1;
    memmove(b, a, n); b[n] = 0;
    size_t rb = tickit_utf8_count((char *)b, &pb, NULL);
    snprintf(cur, sizeof cur, "%d,%ld,%ld,%ld,%d,%d,%d,%ld,%ld,%d,%d,%d,%ld,%d,%ld",
        n, (long)r, (long)ra, (long)pa.bytes, pa.codepoints, pa.graphemes, pa.columns,
        (long)rb, (long)pb.bytes, pb.codepoints, pb.graphemes, pb.columns, (long)rs, untouched, (long)rn);
    if(strcmp(cur, prev) != 0) { printf(" %ld:%s", cp, cur); strcpy(prev, cur); }
  }
  printf(" h=%llu\n", h);
}

int main(void)
{
  guard_init();
  while(vh_next()) {
    if(vh_ntok < 1) { printf("ERR case\n"); continue; }
    char op = vh_tok[0][0];
    switch(op) {
      case 'T': do_tables(); break;
      case 'P': do_sweep(vh_int(1), vh_int(2)); break;
      case 'C': {
        if(vh_ntok < 8) { printf("ERR case\n"); break; }
        size_t n; unsigned char *bytes = vh_hex(vh_tok[1], &n);
        long len = vh_int(2);
        if(len != -1 && (size_t)len != n) { printf("ERR len\n"); free(bytes); break; }
        TickitStringPos pos = { .bytes = vh_int(3), .codepoints = vh_int(4), .graphemes = vh_int(5), .columns = vh_int(6) };
        TickitStringPos lim; int hl = parse_limit(vh_tok[7], &lim);
        if(hl < 0) { printf("ERR limit\n"); free(bytes); break; }
        const char *s = place(bytes, n, len);
        size_t ret = tickit_utf8_ncountmore(s, len == -1 ? (size_t)-1 : (size_t)len, &pos, hl ? &lim : NULL);
        pr_res(ret, &pos); printf("\n");
        free(bytes); break;
      }
      case 'R': {
        if(vh_ntok < 5) { printf("ERR case\n"); break; }
        size_t n; unsigned char *bytes = vh_hex(vh_tok[1], &n);
        long len = vh_int(2);
        if(len != -1 && (size_t)len != n) { printf("ERR len\n"); free(bytes); break; }
        TickitStringPos l1, l2; int h1 = parse_limit(vh_tok[3], &l1), h2 = parse_limit(vh_tok[4], &l2);
        if(h1 < 0 || h2 < 0) { printf("ERR limit\n"); free(bytes); break; }
        const char *s = place(bytes, n, len);
        size_t slen = len == -1 ? (size_t)-1 : (size_t)len;
        TickitStringPos p1, p2;
        memset(&p1, 0x55, sizeof p1); memset(&p2, 0x55, sizeof p2);
        size_t r1 = tickit_utf8_ncount(s, slen, &p1, h1 ? &l1 : NULL);
        pr_res(r1, &p1); printf(" ; ");
        if(r1 == (size_t)-1) printf("-");
        else {
          size_t r12 = tickit_utf8_ncountmore(s, slen, &p1, h2 ? &l2 : NULL);
          pr_res(r12, &p1);
        }
        printf(" ; ");
        size_t r2 = tickit_utf8_ncount(s, slen, &p2, h2 ? &l2 : NULL);
        pr_res(r2, &p2); printf("\n");
        free(bytes); break;
      }
      case 'M': case 'B': case 'K': {
        if(vh_ntok < (op == 'M' ? 2 : 3)) { printf("ERR case\n"); break; }
        size_t n; unsigned char *bytes = vh_hex(vh_tok[1], &n);
        const char *s = place(bytes, n, -1);
        if(op == 'M') printf("%d\n", tickit_utf8_mbswidth(s));
        else if(op == 'B') printf("%d\n", tickit_utf8_byte2col(s, vh_int(2)));
        else printf("%ld\n", (long)tickit_utf8_col2byte(s, vh_int(2)));
        free(bytes); break;
      }
      case 'U': {
        if(vh_ntok < 4) { printf("ERR case\n"); break; }
        long cp = vh_int(1), len = vh_int(2), isnull = vh_int(3);
        if(len < 0 || len > 16) { printf("ERR len\n"); break; }
        unsigned char *p = guard_end - len;
        memset(p, 0xEE, len);
        size_t r = tickit_utf8_put(isnull ? NULL : (char *)p, len, cp);
        printf("%ld ", (long)r); vh_puthex(p, len); printf("\n");
        break;
      }
      case 'S': printf("%d\n", tickit_utf8_seqlen(vh_int(1))); break;
      case 'W': printf("%d\n", tickit_utf8_wcwidth((uint32_t)vh_int(1))); break;
      default: printf("ERR op\n");
    }
    fflush(stdout);
  }
  return 0;
}
