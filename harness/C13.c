/* C13 harness: drawing programs with copyrect (cp), moverect (mv) and blit; see rb_common.h */
#include "rb_common.h"
static int rbh_ext(RbhBuf *bufs, int *cur, const char *kw, int p) { (void)bufs; (void)cur; (void)kw; (void)p; return -1; }
int main(void) { return rbh_main(); }
