/* C06 harness: runs src/rect.c on "<op> ta la ha wa tb lb hb wb".  Output arrays are
 * exactly as long as the header promises (3 for add, 4 for subtract), allocated at the
 * end of a malloc block so that ASan catches a write beyond them. */
#include "tickit.h"
#include "common.h"

static void pr(int n, const TickitRect *r)
{
  printf("%d", n);
  for(int i = 0; i < n; i++) printf(" %d %d %d %d", r[i].top, r[i].left, r[i].lines, r[i].cols);
  printf("\n");
}

int main(void)
{
  while(vh_next()) {
    if(vh_ntok < 9) { printf("ERR case\n"); continue; }
    char op = vh_tok[0][0];
    TickitRect a, b;
    tickit_rect_init_sized(&a, vh_int(1), vh_int(2), vh_int(3), vh_int(4));
    tickit_rect_init_sized(&b, vh_int(5), vh_int(6), vh_int(7), vh_int(8));
    switch(op) {
      case 'I': {
        TickitRect *dst = malloc(sizeof *dst);
        if(tickit_rect_intersect(dst, &a, &b)) pr(1, dst); else printf("0\n");
        free(dst); break;
      }
      /* the same with the destination aliasing the first / the second argument, as callers
       * such as window.c do (intersect(&r, &r, &bounds)) */
      case 'J': { TickitRect *x = malloc(sizeof *x); *x = a;
        if(tickit_rect_intersect(x, x, &b)) pr(1, x); else printf("0\n"); free(x); break; }
      case 'K': { TickitRect *x = malloc(sizeof *x); *x = b;
        if(tickit_rect_intersect(x, &a, x)) pr(1, x); else printf("0\n"); free(x); break; }
      case 'S': printf("%d\n", tickit_rect_intersects(&a, &b) ? 1 : 0); break;
      case 'C': printf("%d\n", tickit_rect_contains(&a, &b) ? 1 : 0); break;
      case 'A': {
        TickitRect *ret = malloc(3 * sizeof *ret);
        int n = tickit_rect_add(ret, &a, &b);
        pr(n, ret); free(ret); break;
      }
      case 'D': {
        TickitRect *ret = malloc(4 * sizeof *ret);
        int n = tickit_rect_subtract(ret, &a, &b);
        pr(n, ret); free(ret); break;
      }
      default: printf("ERR op\n");
    }
  }
  return 0;
}
