/* C12 harness: control settings, pen changes, pause / resume, teardown / destruction.
 *   T <decscusr> <rpm12> <colon> <rgb> <op>...   directly on an xterm TickitTerm
 *        decscusr: value reported for DECSCUSR (-1 = no report => no cursor-shape capability)
 *        rpm12:    DECRPM value reported for mode 12 (0 = no report, 1 = set, 2 = reset)
 *   U <altscreen> <colon> <rgb> <op>...          through a toplevel Tickit instance: tickit_new_for_term,
 *        one tick (= setupterm), the ops on its terminal, D = tickit_unref
 *   W <altscreen> <colon> <rgb> <d69> <d25> <d12> <dscusr> <op>...   as U, with a terminal IN THE LOOP that answers the
 *        driver's start-up queries: its replies (DECRPM ?69;1 ?25;1 ?12;2, DECRQSS "2 q") arrive on the terminal's input
 *        fd (a pipe) and are read whenever the instance next reads input.  d* = the number of reads (ticks) after which
 *        the reply is there: 0 = before the first tick (whose setupterm awaits them), k = before the (k+1)-th tick,
 *        -1 = never.  Extra op: t = one more tickit_tick(NOHANG).
 *   B <decscusr> <rpm12> <colon> <rgb> <fd> <op>...   CONSTRUCTION ORDERS and OUTPUT BUFFERS: the terminal comes from
 *        tickit_term_new_for_termtype (no output, not started); extra ops: b:<len> (tickit_term_set_output_buffer), o (attach the
 *        output: tickit_term_set_output_func, or with fd=1 tickit_term_set_output_fd on a pipe; the first attach starts the
 *        driver, and the terminal's replies to the start-up queries are pushed right after it), F (tickit_term_flush).  NO
 *        flush is added after any op in this layer: each observation is what has been DELIVERED to the output during the op.
 * ops: A:v V:v B:v M:v H:v K:v (setctl altscreen, cursorvis, cursorblink, mouse, cursorshape, keypad_app)
 *      g:X (getctl, X one of AVBMHK)  s:<pen>  c:<pen>  Z (pause)  R (resume)  T (teardown)  D (destroy)
 *      U only: w (the application takes its own reference on the root window: tickit_window_ref(
 *      tickit_get_rootwin)), h (... on the terminal: tickit_term_ref), x (releases what it holds).  With
 *      something held, D (tickit_unref of the instance) does not end the case: x may follow.
 * observation: I:<start bytes> [S:<setup bytes>] then per op: set "<ret>:<bytes>", get "=<value>", else "<bytes>" */
#include "xt_common.h"
#include <unistd.h>
#include <fcntl.h>

/* the responding terminal: replies not yet delivered */
static int w_fd = -1, w_delay[4];
static const char *w_reply[4] = { "\033[?69;1$y", "\033[?25;1$y", "\033[?12;2$y", "\033P1$r2 q\033\\" };
static void w_deliver(int tick)
{
  for(int i = 0; i < 4; i++)
    if(w_delay[i] == tick) { if(write(w_fd, w_reply[i], strlen(w_reply[i])) < 0) {} }
}

/* layer B with an output fd: the read end of the pipe, drained into the capture buffer after every op */
static int b_rfd = -1;
static void b_drain(void)
{
  if(b_rfd == -1) return;
  char buf[4096];
  ssize_t n;
  while((n = read(b_rfd, buf, sizeof buf)) > 0)
    xt_output(NULL, buf, (size_t)n, NULL);
}

static TickitTermCtl ctl_of(char c)
{
  switch(c) {
    case 'A': return TICKIT_TERMCTL_ALTSCREEN;
    case 'V': return TICKIT_TERMCTL_CURSORVIS;
    case 'B': return TICKIT_TERMCTL_CURSORBLINK;
    case 'M': return TICKIT_TERMCTL_MOUSE;
    case 'H': return TICKIT_TERMCTL_CURSORSHAPE;
    case 'K': return TICKIT_TERMCTL_KEYPAD_APP;
  }
  return 0;
}

int main(void)
{
  setvbuf(stdout, NULL, _IOLBF, 0);
  while(vh_next()) {
    if(vh_ntok < 4) { printf("ERR case\n"); continue; }
    char layer = vh_tok[0][0];
    int fds[2] = { -1, -1 };
    TickitTerm *tt;
    if(layer == 'W') {
      if(pipe(fds) != 0) { printf("ERR pipe\n"); continue; }
      fcntl(fds[1], F_SETFL, fcntl(fds[1], F_GETFL) | O_NONBLOCK);
      xt_reset();
      tt = tickit_term_build(&(struct TickitTermBuilder){
        .termtype = "xterm", .open = TICKIT_OPEN_FDS, .input_fd = fds[0], .output_fd = -1,
        .output_func = xt_output, .output_func_user = NULL,
      });
    }
    else if(layer == 'B') {
      xt_reset();
      tt = tickit_term_new_for_termtype("xterm");
    }
    else
      tt = xt_build();
    Tickit *t = NULL;
    int first, ticks = 0;
    printf("I:"); xt_puthex();
    if(layer == 'T') {
      if(vh_ntok < 5) { printf(" ERR case\n"); tickit_term_unref(tt); continue; }
      xt_probe(tt, 1, 1, vh_int(2), vh_int(1), vh_int(3), vh_int(4));
      first = 5;
    }
    else if(layer == 'U') {
      xt_probe(tt, 1, 1, 2, 2, vh_int(2), vh_int(3));
      t = tickit_new_for_term(tt);
      if(!vh_int(1)) tickit_setctl_int(t, TICKIT_CTL_USE_ALTSCREEN, 0);
      xt_reset();
      tickit_tick(t, TICKIT_RUN_NOHANG);
      printf(" S:"); xt_puthex();
      first = 4;
    }
    else if(layer == 'W') {
      if(vh_ntok < 8) { printf(" ERR case\n"); tickit_term_unref(tt); close(fds[0]); close(fds[1]); continue; }
      /* separator and RGB are established up front, as in the other layers */
      xt_push(tt, vh_int(2) ? "\eP1$r38:5:255m\e\\" : "\eP1$r38;5;255m\e\\");
      tickit_term_setctl_int(tt, tickit_termctl_lookup("xterm.cap_rgb8"), vh_int(3));
      w_fd = fds[1];
      for(int i = 0; i < 4; i++) w_delay[i] = vh_int(4 + i);
      t = tickit_new_for_term(tt);
      if(!vh_int(1)) tickit_setctl_int(t, TICKIT_CTL_USE_ALTSCREEN, 0);
      w_deliver(ticks);
      xt_reset();
      tickit_tick(t, TICKIT_RUN_NOHANG);
      ticks++;
      printf(" S:"); xt_puthex();
      first = 8;
    }
    else if(layer == 'B') {
      if(vh_ntok < 6) { printf(" ERR case\n"); tickit_term_unref(tt); continue; }
      /* separator and RGB up front (they are capabilities, not modes) */
      xt_push(tt, vh_int(3) ? "\eP1$r38:5:255m\e\\" : "\eP1$r38;5;255m\e\\");
      tickit_term_setctl_int(tt, tickit_termctl_lookup("xterm.cap_rgb8"), vh_int(4));
      if(vh_int(5)) {
        if(pipe(fds) != 0) { printf(" ERR pipe\n"); tickit_term_unref(tt); continue; }
        fcntl(fds[0], F_SETFL, fcntl(fds[0], F_GETFL) | O_NONBLOCK);
        b_rfd = fds[0];
      }
      first = 6;
    }
    else { printf(" ERR layer\n"); tickit_term_unref(tt); continue; }
    bool autoflush = layer != 'B';
    bool b_attached = false;

    bool destroyed = false;
    TickitWindow *held_win = NULL;
    int held_winrefs = 0, held_term = 0;
    for(int i = first; i < vh_ntok && !destroyed; i++) {
      char *f[4];
      char kind = vh_tok[i][0];
      int nf = xt_split(vh_tok[i], f, 4);
      xt_reset();
      if(strchr("AVBMHK", kind) && nf >= 2) {
        int ret = tickit_term_setctl_int(tt, ctl_of(kind), atoi(f[1]));
        if(autoflush) tickit_term_flush(tt);
        b_drain();
        printf(" %d:", ret ? 1 : 0); xt_puthex();
      }
      else if(kind == 'g' && nf >= 2) {
        int v = -99;
        bool ok = tickit_term_getctl_int(tt, ctl_of(f[1][0]), &v);
        if(ok) printf(" =%d", v); else printf(" =fail");
      }
      else if((kind == 's' || kind == 'c') && nf >= 2) {
        TickitPen *pen = xt_parse_pen(f[1]);
        if(kind == 'c') tickit_term_chpen(tt, pen); else tickit_term_setpen(tt, pen);
        tickit_pen_unref(pen);
        if(autoflush) tickit_term_flush(tt);
        b_drain();
        putchar(' '); xt_puthex();
      }
      else if(kind == 'Z') { tickit_term_pause(tt); if(autoflush) tickit_term_flush(tt); b_drain(); putchar(' '); xt_puthex(); }
      else if(kind == 'R') { tickit_term_resume(tt); if(autoflush) tickit_term_flush(tt); b_drain(); putchar(' '); xt_puthex(); }
      else if(kind == 'T') { tickit_term_teardown(tt); b_drain(); putchar(' '); xt_puthex(); }
      else if(kind == 'F' && layer == 'B') { tickit_term_flush(tt); b_drain(); putchar(' '); xt_puthex(); }
      else if(kind == 'b' && layer == 'B' && nf >= 2) {
        tickit_term_set_output_buffer(tt, (size_t)atol(f[1])); b_drain(); putchar(' '); xt_puthex();
      }
      else if(kind == 'o' && layer == 'B') {
        if(b_rfd != -1) tickit_term_set_output_fd(tt, fds[1]);
        else            tickit_term_set_output_func(tt, xt_output, NULL);
        if(!b_attached) {
          /* the terminal answers the queries start() has just sent */
          char buf[64];
          xt_push(tt, "\e[?69;1$y"); xt_push(tt, "\e[?25;1$y");
          if(vh_int(2)) { snprintf(buf, sizeof buf, "\e[?12;%d$y", (int)vh_int(2)); xt_push(tt, buf); }
          if(vh_int(1) >= 0) { snprintf(buf, sizeof buf, "\eP1$r%d q\e\\", (int)vh_int(1)); xt_push(tt, buf); }
          b_attached = true;
        }
        b_drain(); putchar(' '); xt_puthex();
      }
      else if(kind == 'D' && (layer == 'T' || layer == 'B' || t)) {
        if(t) { tickit_unref(t); t = NULL; } else tickit_term_unref(tt);
        destroyed = !(held_win || held_term);
        b_drain();
        putchar(' '); xt_puthex();
      }
      else if(kind == 't' && layer == 'W' && t) {
        w_deliver(ticks);
        tickit_tick(t, TICKIT_RUN_NOHANG);
        ticks++;
        tickit_term_flush(tt);
        putchar(' '); xt_puthex();
      }
      else if(kind == 'w' && t) {
        held_win = tickit_window_ref(tickit_get_rootwin(t)); held_winrefs++;
        tickit_term_flush(tt);
        putchar(' '); xt_puthex();
      }
      else if(kind == 'h' && layer != 'T') {
        tickit_term_ref(tt); held_term++;
        putchar(' '); xt_puthex();
      }
      else if(kind == 'x' && layer != 'T') {
        bool last = !t;
        while(held_winrefs) { tickit_window_unref(held_win); held_winrefs--; }
        held_win = NULL;
        while(held_term) { tickit_term_unref(tt); held_term--; }
        if(last) destroyed = true;
        putchar(' '); xt_puthex();
      }
      else printf(" ERR");
    }
    printf("\n");
    xt_reset();
    if(!destroyed) {
      if(t) tickit_unref(t); else if(layer == 'T' || layer == 'B') tickit_term_unref(tt);
      while(held_winrefs) { tickit_window_unref(held_win); held_winrefs--; }
      while(held_term) { tickit_term_unref(tt); held_term--; }
    }
    if(fds[0] != -1) { close(fds[0]); close(fds[1]); w_fd = -1; b_rfd = -1; }
  }
  return 0;
}
