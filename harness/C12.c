/* C12 harness: control settings, pen changes, pause / resume, teardown / destruction.
 *   T <decscusr> <rpm12> <colon> <rgb> <op>...   directly on an xterm TickitTerm
 *        decscusr: value reported for DECSCUSR (-1 = no report => no cursor-shape capability)
 *        rpm12:    DECRPM value reported for mode 12 (0 = no report, 1 = set, 2 = reset)
 *   U <altscreen> <colon> <rgb> <op>...          through a toplevel Tickit instance: tickit_new_for_term,
 *        one tick (= setupterm), the ops on its terminal, D = tickit_unref
 * ops: A:v V:v B:v M:v H:v K:v (setctl altscreen, cursorvis, cursorblink, mouse, cursorshape, keypad_app)
 *      g:X (getctl, X one of AVBMHK)  s:<pen>  c:<pen>  Z (pause)  R (resume)  T (teardown)  D (destroy)
 *      U only: w (the application takes its own reference on the root window: tickit_window_ref(
 *      tickit_get_rootwin)), h (... on the terminal: tickit_term_ref), x (releases what it holds).  With
 *      something held, D (tickit_unref of the instance) does not end the case: x may follow.
 * observation: I:<start bytes> [S:<setup bytes>] then per op: set "<ret>:<bytes>", get "=<value>", else "<bytes>" */
#include "xt_common.h"

static TickitTermCtl ctl_of(char c)
{
  switch(c) {
    case 'A': return TICKIT_TERMCTL_ALTSCREEN;
    case 'V': return TICKIT_TERMCTL_CURSORVIS;
    case 'B': return TICKIT_TERMCTL_CURSORBLINK;
    case 'M': return TICKIT_TERMCTL_MOUSE;
    case 'H': return TICKIT_TERMCTL_CURSORSHAPE;
    case 'K': return TICKIT_TERMCTL_KEYPAD_APP;
  }
  return 0;
}

int main(void)
{
  setvbuf(stdout, NULL, _IOLBF, 0);
  while(vh_next()) {
    if(vh_ntok < 4) { printf("ERR case\n"); continue; }
    char layer = vh_tok[0][0];
    TickitTerm *tt = xt_build();
    Tickit *t = NULL;
    int first;
    printf("I:"); xt_puthex();
    if(layer == 'T') {
      if(vh_ntok < 5) { printf(" ERR case\n"); tickit_term_unref(tt); continue; }
      xt_probe(tt, 1, 1, vh_int(2), vh_int(1), vh_int(3), vh_int(4));
      first = 5;
    }
    else if(layer == 'U') {
      xt_probe(tt, 1, 1, 2, 2, vh_int(2), vh_int(3));
      t = tickit_new_for_term(tt);
      if(!vh_int(1)) tickit_setctl_int(t, TICKIT_CTL_USE_ALTSCREEN, 0);
      xt_reset();
      tickit_tick(t, TICKIT_RUN_NOHANG);
      printf(" S:"); xt_puthex();
      first = 4;
    }
    else { printf(" ERR layer\n"); tickit_term_unref(tt); continue; }

    bool destroyed = false;
    TickitWindow *held_win = NULL;
    int held_winrefs = 0, held_term = 0;
    for(int i = first; i < vh_ntok && !destroyed; i++) {
      char *f[4];
      char kind = vh_tok[i][0];
      int nf = xt_split(vh_tok[i], f, 4);
      xt_reset();
      if(strchr("AVBMHK", kind) && nf >= 2) {
        int ret = tickit_term_setctl_int(tt, ctl_of(kind), atoi(f[1]));
        tickit_term_flush(tt);
        printf(" %d:", ret ? 1 : 0); xt_puthex();
      }
      else if(kind == 'g' && nf >= 2) {
        int v = -99;
        bool ok = tickit_term_getctl_int(tt, ctl_of(f[1][0]), &v);
        if(ok) printf(" =%d", v); else printf(" =fail");
      }
      else if((kind == 's' || kind == 'c') && nf >= 2) {
        TickitPen *pen = xt_parse_pen(f[1]);
        if(kind == 'c') tickit_term_chpen(tt, pen); else tickit_term_setpen(tt, pen);
        tickit_pen_unref(pen);
        tickit_term_flush(tt);
        putchar(' '); xt_puthex();
      }
      else if(kind == 'Z') { tickit_term_pause(tt); tickit_term_flush(tt); putchar(' '); xt_puthex(); }
      else if(kind == 'R') { tickit_term_resume(tt); tickit_term_flush(tt); putchar(' '); xt_puthex(); }
      else if(kind == 'T') { tickit_term_teardown(tt); putchar(' '); xt_puthex(); }
      else if(kind == 'D' && (layer == 'T' || t)) {
        if(t) { tickit_unref(t); t = NULL; } else tickit_term_unref(tt);
        destroyed = !(held_win || held_term);
        putchar(' '); xt_puthex();
      }
      else if(kind == 'w' && t) {
        held_win = tickit_window_ref(tickit_get_rootwin(t)); held_winrefs++;
        tickit_term_flush(tt);
        putchar(' '); xt_puthex();
      }
      else if(kind == 'h' && layer == 'U') {
        tickit_term_ref(tt); held_term++;
        putchar(' '); xt_puthex();
      }
      else if(kind == 'x' && layer == 'U') {
        bool last = !t;
        while(held_winrefs) { tickit_window_unref(held_win); held_winrefs--; }
        held_win = NULL;
        while(held_term) { tickit_term_unref(tt); held_term--; }
        if(last) destroyed = true;
        putchar(' '); xt_puthex();
      }
      else printf(" ERR");
    }
    printf("\n");
    xt_reset();
    if(!destroyed) {
      if(t) tickit_unref(t); else if(layer == 'T') tickit_term_unref(tt);
      while(held_winrefs) { tickit_window_unref(held_win); held_winrefs--; }
      while(held_term) { tickit_term_unref(tt); held_term--; }
    }
  }
  return 0;
}
