/* C15 harness: see win_harness.h (cursor state after every flush, focus event log) */
#include "win_harness.h"
int main(void) { return win_main(); }
