/* C04 harness: drawing programs followed by a flush onto a mock terminal showing a sentinel
 * pattern (fl) or through the xterm driver into a byte buffer (flx); see rb_common.h */
#include "rb_common.h"
static int rbh_ext(RbhBuf *bufs, int *cur, const char *kw, int p) { (void)bufs; (void)cur; (void)kw; (void)p; return -1; }
int main(void) { return rbh_main(); }
