/* unibilium.h -- SHIM used only by harness/XTI.c.  This sandbox has no unibilium, so libtickit's terminfo
 * driver (src/termdriver-ti.c) is compiled out of the normal build.  The shim lets the unmodified driver source
 * be compiled against an ABSTRACT terminfo entry: which optional capabilities exist, bce, colour count and
 * size are set by the harness; every capability string is symbolic and unibi_run renders a capability and its
 * parameters as "{name p1 p2 ...}", so that what the harness observes is the driver's DECISION (which capability
 * with which arguments), independent of any real terminfo encoding. */
#ifndef VERIF_TI_SHIM_UNIBILIUM_H
#define VERIF_TI_SHIM_UNIBILIUM_H
#include <stdio.h>
#include <stdlib.h>
#include <string.h>

enum unibi_boolean { unibi_back_color_erase = 1 };
enum unibi_numeric { unibi_max_colors = 1, unibi_lines, unibi_columns };
enum unibi_string {
  unibi_string_begin_ = 0,
  unibi_cursor_address, unibi_row_address, unibi_column_address,
  unibi_parm_up_cursor, unibi_cursor_up, unibi_parm_down_cursor, unibi_cursor_down,
  unibi_parm_right_cursor, unibi_cursor_right, unibi_parm_left_cursor, unibi_cursor_left,
  unibi_parm_ich, unibi_insert_character, unibi_parm_dch, unibi_delete_character,
  unibi_parm_insert_line, unibi_insert_line, unibi_parm_delete_line, unibi_delete_line,
  unibi_erase_chars, unibi_clear_screen, unibi_change_scroll_region,
  unibi_set_attributes, unibi_exit_attribute_mode, unibi_exit_italics_mode, unibi_enter_italics_mode,
  unibi_set_a_foreground, unibi_set_a_background, unibi_cursor_normal, unibi_cursor_invisible,
  unibi_key_mouse,
  unibi_string_end_
};

typedef struct { int dummy; } unibi_term;
typedef struct { int i; } unibi_var_t;

/* configuration, set by the harness before tickit_term_build */
extern unsigned ti_shim_missing;   /* bit (1 << cap) set = optional capability absent */
extern int ti_shim_bce, ti_shim_colours, ti_shim_lines, ti_shim_cols, ti_shim_kmous;

static const struct { const char *name; int arity; int optional; } ti_shim_caps[] = {
  [unibi_cursor_address] = { "{cup}", 2, 0 }, [unibi_row_address] = { "{vpa}", 1, 1 },
  [unibi_column_address] = { "{hpa}", 1, 1 },
  [unibi_parm_up_cursor] = { "{cuu}", 1, 0 }, [unibi_cursor_up] = { "{cuu1}", 0, 1 },
  [unibi_parm_down_cursor] = { "{cud}", 1, 0 }, [unibi_cursor_down] = { "{cud1}", 0, 1 },
  [unibi_parm_right_cursor] = { "{cuf}", 1, 0 }, [unibi_cursor_right] = { "{cuf1}", 0, 1 },
  [unibi_parm_left_cursor] = { "{cub}", 1, 0 }, [unibi_cursor_left] = { "{cub1}", 0, 1 },
  [unibi_parm_ich] = { "{ich}", 1, 0 }, [unibi_insert_character] = { "{ich1}", 0, 1 },
  [unibi_parm_dch] = { "{dch}", 1, 0 }, [unibi_delete_character] = { "{dch1}", 0, 1 },
  [unibi_parm_insert_line] = { "{il}", 1, 0 }, [unibi_insert_line] = { "{il1}", 0, 1 },
  [unibi_parm_delete_line] = { "{dl}", 1, 0 }, [unibi_delete_line] = { "{dl1}", 0, 1 },
  [unibi_erase_chars] = { "{ech}", 1, 0 }, [unibi_clear_screen] = { "{ed2}", 0, 0 },
  [unibi_change_scroll_region] = { "{stbm}", 2, 0 },
  [unibi_set_attributes] = { "{sgr}", 9, 0 }, [unibi_exit_attribute_mode] = { "{sgr0}", 0, 0 },
  [unibi_exit_italics_mode] = { "{ritm}", 0, 1 }, [unibi_enter_italics_mode] = { "{sitm}", 0, 1 },
  [unibi_set_a_foreground] = { "{setaf}", 1, 0 }, [unibi_set_a_background] = { "{setab}", 1, 0 },
  [unibi_cursor_normal] = { "{cnorm}", 0, 0 }, [unibi_cursor_invisible] = { "{civis}", 0, 0 },
  [unibi_key_mouse] = { "{kmous}", 0, 1 },
};

static inline unibi_term *unibi_from_term(const char *term)
{
  if(strcmp(term, "shimterm") != 0) return NULL;
  return calloc(1, sizeof(unibi_term));
}
static inline void unibi_destroy(unibi_term *ut) { free(ut); }
static inline const char *unibi_name_str(enum unibi_string s) { return ti_shim_caps[s].name; }
static inline const char *unibi_get_str(unibi_term *ut, enum unibi_string s)
{
  (void)ut;
  if(s == unibi_key_mouse) return ti_shim_kmous == 1 ? "\033[M" : ti_shim_kmous == 2 ? "\033[<" : NULL;
  if(ti_shim_caps[s].optional && (ti_shim_missing & (1u << s))) return NULL;
  return ti_shim_caps[s].name;
}
static inline int unibi_get_bool(unibi_term *ut, enum unibi_boolean b) { (void)ut; (void)b; return ti_shim_bce; }
static inline int unibi_get_num(unibi_term *ut, enum unibi_numeric n)
{
  (void)ut;
  return n == unibi_max_colors ? ti_shim_colours : n == unibi_lines ? ti_shim_lines : ti_shim_cols;
}
static inline unibi_var_t unibi_var_from_num(int i) { unibi_var_t v = { i }; return v; }

/* "{name}" + parameters -> "{name p1 p2}"; returns the length needed (like the real unibi_run) */
static inline size_t unibi_run(const char *fmt, unibi_var_t params[9], char *buf, size_t n)
{
  char tmp[256];
  int arity = -1;
  for(int s = 1; s < unibi_string_end_; s++)
    if(ti_shim_caps[s].name && strcmp(ti_shim_caps[s].name, fmt) == 0) arity = ti_shim_caps[s].arity;
  size_t len;
  if(arity < 0) { len = snprintf(tmp, sizeof tmp, "{?%s}", fmt); }
  else {
    size_t flen = strlen(fmt);
    len = 0;
    memcpy(tmp, fmt, flen - 1); len = flen - 1;
    for(int i = 0; i < arity; i++) len += snprintf(tmp + len, sizeof tmp - len, " %d", params[i].i);
    tmp[len++] = '}';
  }
  if(len <= n) memcpy(buf, tmp, len);
  return len;
}
#endif
