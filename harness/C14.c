/* C14 harness: see win_harness.h (key / mouse delivery logs, mutations inside handlers) */
#include "win_harness.h"
int main(void) { return win_main(); }
