/* C01 harness: see win_harness.h */
#include "win_harness.h"
int main(void) { return win_main(); }
