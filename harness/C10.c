/* C10 harness: the pen path.
 *   X <colon> <rgb> <op>...   a real xterm TickitTerm; observation "I:<start bytes> <bytes>..." per op
 *   D <colors> <op>...        term.c above a logging driver that reports <colors> colours;
 *                             observation "<delta>><final>" per op (pens in the compact syntax)
 * ops: s:<pen> (tickit_term_setpen)  c:<pen> (tickit_term_chpen), each with a FRESH pen object;
 *      one pen object REUSED through the case: p:<pen> (tickit_pen_set_*_attr on it), k:<pen> (tickit_pen_clear_attr of the
 *      attributes named; values ignored), S:- / C:- (tickit_term_setpen / chpen with it); p and k print "." */
#include "xt_common.h"
#include "tickit-termdrv.h"

/* ---- logging driver, after t/19term-driver.c */
static int d_colors = 8;
static bool d_print(TickitTermDriver *ttd, const char *str, size_t len) { return true; }
static bool d_goto(TickitTermDriver *ttd, int line, int col) { return true; }
static bool d_move(TickitTermDriver *ttd, int d, int r) { return true; }
static bool d_scroll(TickitTermDriver *ttd, const TickitRect *rect, int d, int r) { return false; }
static bool d_erasech(TickitTermDriver *ttd, int count, TickitMaybeBool moveend) { return true; }
static bool d_clear(TickitTermDriver *ttd) { return true; }
static bool d_chpen(TickitTermDriver *ttd, const TickitPen *delta, const TickitPen *final)
{
  putchar(' ');
  xt_print_pen(delta); putchar('>'); xt_print_pen(final);
  return true;
}
static bool d_getctl_int(TickitTermDriver *ttd, TickitTermCtl ctl, int *value)
{
  if(ctl == TICKIT_TERMCTL_COLORS) { *value = d_colors; return true; }
  return false;
}
static bool d_setctl_int(TickitTermDriver *ttd, TickitTermCtl ctl, int value) { return false; }
static bool d_setctl_str(TickitTermDriver *ttd, TickitTermCtl ctl, const char *value) { return false; }
static TickitTermDriverVTable d_vtable = {
  .destroy    = (void (*)(TickitTermDriver *))free,
  .print      = d_print,
  .goto_abs   = d_goto,
  .move_rel   = d_move,
  .scrollrect = d_scroll,
  .erasech    = d_erasech,
  .clear      = d_clear,
  .chpen      = d_chpen,
  .getctl_int = d_getctl_int,
  .setctl_int = d_setctl_int,
  .setctl_str = d_setctl_str,
};

int main(void)
{
  setvbuf(stdout, NULL, _IOLBF, 0);   /* a crash must not lose the lines of earlier cases */
  while(vh_next()) {
    if(vh_ntok < 2) { printf("ERR case\n"); continue; }
    char layer = vh_tok[0][0];
    TickitTerm *tt;
    int first;
    if(layer == 'X') {
      if(vh_ntok < 3) { printf("ERR case\n"); continue; }
      int colon = vh_int(1), rgb = vh_int(2);
      tt = xt_build();
      printf("I:"); xt_puthex();
      xt_probe(tt, 1, 1, 2, 2, colon, rgb);
      if(xt_getcap(tt, "xterm.cap_csi_sub_colon") != !!colon || xt_getcap(tt, "xterm.cap_rgb8") != !!rgb) {
        printf(" ERR probe\n"); tickit_term_unref(tt); continue;
      }
      first = 3;
    }
    else if(layer == 'D') {
      d_colors = vh_int(1);
      TickitTermDriver *ttd = malloc(sizeof(TickitTermDriver));
      ttd->vtable = &d_vtable;
      tt = tickit_term_build(&(struct TickitTermBuilder){
        .driver = ttd, .output_func = xt_output, .output_func_user = NULL,
      });
      printf("D");
      first = 2;
    }
    else { printf("ERR layer\n"); continue; }

    TickitPen *reuse = tickit_pen_new();
    for(int i = first; i < vh_ntok; i++) {
      char *f[4];
      char kind = vh_tok[i][0];
      int nf = xt_split(vh_tok[i], f, 4);
      if(nf < 2 || !strchr("scpkSC", kind)) { printf(" ERR"); continue; }
      if(kind == 'p') { xt_apply_pen(reuse, f[1]); printf(" ."); continue; }
      if(kind == 'k') { xt_clear_attrs(reuse, f[1]); printf(" ."); continue; }
      bool fresh = kind == 's' || kind == 'c';
      TickitPen *pen = fresh ? xt_parse_pen(f[1]) : reuse;
      xt_reset();
      if(kind == 'c' || kind == 'C') tickit_term_chpen(tt, pen); else tickit_term_setpen(tt, pen);
      if(fresh) tickit_pen_unref(pen);
      if(layer == 'X') { tickit_term_flush(tt); putchar(' '); xt_puthex(); }
    }
    printf("\n");
    tickit_pen_unref(reuse);
    tickit_term_unref(tt);
  }
  return 0;
}
