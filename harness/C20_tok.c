/* C20_tok.c -- the tokenizer side of the C20 check: the SYSTEM's libtermkey (trusted, not part
 * of the repository under verification), configured exactly as src/term.c configures it
 * (TERM=xterm, UTF-8, EINTR|NOSTART, CANON_DELBS), is fed each whole stream once and drained
 * with termkey_getkey; every key is printed with the number of bytes it consumed.
 * input : <termtype> <hexstream> per line ("-" = empty stream)
 * output: per line  <tok> <tok> ... [A<n>]   with
 *   <tok> = L<len>:<type>:<mod>:<n1>:<n2>:<n3>:<n4>:<hexA>:<hexB>
 *   type U unicode (hexA = utf8, hexB = strfkey name), F function, S keysym (hexB = name),
 *        M mouse (n1 = event, n2 = button, n3 = line, n4 = col), R mode report (initial, mode,
 *        value), D DCS/OSC string (n1 = interpret_string result, hexA = string), P position,
 *        C unknown CSI, X anything else;   A<n> = n bytes left over (termkey says AGAIN). */
#include <stdio.h>
#include <stdlib.h>
#include <string.h>
#include <termkey.h>
#include "common.h"

int main(void)
{
  while(vh_next()) {
    if(vh_ntok < 2) { printf("ERR\n"); continue; }
    setenv("TERM", vh_tok[0], 1);
    size_t len; unsigned char *b = vh_hex(vh_tok[1], &len);
    TermKey *tk = termkey_new(-1, TERMKEY_FLAG_EINTR | TERMKEY_FLAG_NOSTART | TERMKEY_FLAG_UTF8);
    termkey_start(tk);
    termkey_set_canonflags(tk, termkey_get_canonflags(tk) | TERMKEY_CANON_DELBS);
    termkey_set_buffer_size(tk, len + 16);
    termkey_push_bytes(tk, (char *)b, len);
    TermKeyKey key; TermKeyResult res; int first = 1;
    size_t before = termkey_get_buffer_remaining(tk);
    size_t pos = 0, skip = 0;
    while((res = termkey_getkey(tk, &key)) == TERMKEY_RES_KEY) {
      size_t after = termkey_get_buffer_remaining(tk);
      /* An unknown CSI is consumed lazily: termkey eats the introducer now and the rest of the
       * sequence at the start of the next termkey_getkey.  The whole sequence is the token. */
      size_t tlen = after - before - skip;
      skip = 0;
      if(key.type == TERMKEY_TYPE_UNKNOWN_CSI) {
        size_t q = pos + tlen;
        while(q < len && b[q] >= 0x30 && b[q] <= 0x3f) q++;
        while(q < len && b[q] >= 0x20 && b[q] <= 0x2f) q++;
        if(q < len) q++;
        skip = q - (pos + tlen);
        tlen = q - pos;
      }
      pos += tlen;
      long n[4] = {0, 0, 0, 0}; char ty = 'X';
      char name[64] = ""; const char *sa = "", *sb = "";
      switch(key.type) {
        case TERMKEY_TYPE_UNICODE:  ty = 'U'; sa = key.utf8; termkey_strfkey(tk, name, sizeof name, &key, TERMKEY_FORMAT_ALTISMETA); sb = name; break;
        case TERMKEY_TYPE_FUNCTION: ty = 'F'; termkey_strfkey(tk, name, sizeof name, &key, TERMKEY_FORMAT_ALTISMETA); sb = name; break;
        case TERMKEY_TYPE_KEYSYM:   ty = 'S'; termkey_strfkey(tk, name, sizeof name, &key, TERMKEY_FORMAT_ALTISMETA); sb = name; break;
        case TERMKEY_TYPE_MOUSE: {
          TermKeyMouseEvent ev; int bt = 0, li = 0, co = 0;
          termkey_interpret_mouse(tk, &key, &ev, &bt, &li, &co);
          ty = 'M'; n[0] = ev; n[1] = bt; n[2] = li; n[3] = co; break; }
        case TERMKEY_TYPE_MODEREPORT: {
          int in = 0, mo = 0, va = 0; termkey_interpret_modereport(tk, &key, &in, &mo, &va);
          ty = 'R'; n[0] = in; n[1] = mo; n[2] = va; break; }
        case TERMKEY_TYPE_DCS: {
          const char *s = NULL; n[0] = termkey_interpret_string(tk, &key, &s);
          ty = 'D'; sa = s ? s : ""; break; }
        case TERMKEY_TYPE_POSITION: ty = 'P'; break;
        case TERMKEY_TYPE_UNKNOWN_CSI: ty = 'C'; break;
        default: ty = 'X';
      }
      printf("%sL%zu:%c:%d:%ld:%ld:%ld:%ld:", first ? "" : " ", tlen, ty, key.modifiers, n[0], n[1], n[2], n[3]);
      vh_puthex((const unsigned char *)sa, strlen(sa)); putchar(':');
      vh_puthex((const unsigned char *)sb, strlen(sb));
      first = 0; before = after;
    }
    size_t left = len - pos;
    if(left) printf("%sA%zu", first ? "" : " ", left), first = 0;
    if(first) putchar('-');
    putchar('\n'); fflush(stdout);   /* the caller counts lines to find a stream libtermkey crashes on */
    termkey_destroy(tk); free(b);
  }
  return 0;
}
