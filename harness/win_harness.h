/* win_harness.h -- history interpreter over real TickitWindows (properties C01, C02, C14, C15).
 *
 * A case line is   W <M|G> <lines> <cols> <policy>  { PR .. | CL .. | MU .. }  <ops...>
 *   terminal kind M = the library's mock terminal (tickit_mockterm_new), G = a grid terminal
 *   driver owned by this harness (TickitTermBuilder.driver) whose scrollrect answers per
 *   policy: A accept, R refuse, K mockterm's rule, F full width only, S<bits> per request.
 *   PR id n <dop>*n      drawing program of window id's expose handler (default: p)
 *   CL id mask           which input events window id's handlers claim
 *   MU id cls act tgt    when window id sees an event of class cls (0 key, 1 mouse) it
 *                        closes (act 1) or closes and destroys (act 2) window tgt, once
 *   RA id n <act>*n      calls window id's expose handler makes into the window layer after
 *                        drawing, every time it runs: ea w | ex w t l h c | sh w | hi w |
 *                        ra w | rf w | lo w | lb w | xc w (close) | xd w (close and destroy)
 *   FA / GA id n <act>*n the same for the focus / geomchange handlers
 * Observation: one record per F / TF / K / MS op (see print_* below).
 *
 * src/window.c is #included so that the harness can print the internal focus links; every
 * operation goes through the public API.  Every window gets one extra reference held by
 * the harness, dropped at the end of the case.
 */
#include "tickit.h"
#include "tickit-mockterm.h"
#include "tickit-termdrv.h"
#include "window.c"
#include "common.h"

/* ------------------------------------------------------------------------------------ */
/* grid terminal driver                                                                  */

typedef struct {
  TickitTermDriver super;
  int lines, cols;
  int *cells;
  int line, col;
  int cvis, cblink, cshape;
  char policy;
  const char *script;
  int nreq;
} GridDrv;

#define GBOUND(var,min,max) do { if(var < (min)) var = (min); if(var > (max)) var = (max); } while(0)

static void gd_destroy(TickitTermDriver *ttd) { GridDrv *g = (GridDrv *)ttd; free(g->cells); free(g); }

static bool gd_print(TickitTermDriver *ttd, const char *str, size_t len)
{
  GridDrv *g = (GridDrv *)ttd;
  size_t i = 0;
  while(i < len) {
    unsigned char b = (unsigned char)str[i];
    int n = b < 0x80 ? 1 : b < 0xe0 ? 2 : b < 0xf0 ? 3 : 4;
    int cp = b;
    if(n == 2) cp = ((b & 0x1f) << 6) | (str[i+1] & 0x3f);
    else if(n == 3) cp = ((b & 0x0f) << 12) | ((str[i+1] & 0x3f) << 6) | (str[i+2] & 0x3f);
    else if(n == 4) cp = 0xfffd;
    if(g->line >= 0 && g->line < g->lines && g->col >= 0 && g->col < g->cols)
      g->cells[g->line * g->cols + g->col] = cp;
    g->col++;
    i += n;
  }
  return true;
}
static bool gd_goto_abs(TickitTermDriver *ttd, int line, int col)
{
  GridDrv *g = (GridDrv *)ttd;
  GBOUND(line, 0, g->lines-1); GBOUND(col, 0, g->cols-1);
  g->line = line; g->col = col;
  return true;
}
static bool gd_move_rel(TickitTermDriver *ttd, int downward, int rightward)
{
  GridDrv *g = (GridDrv *)ttd;
  return gd_goto_abs(ttd, g->line + downward, g->col + rightward);
}
static bool gd_scrollrect(TickitTermDriver *ttd, const TickitRect *rect, int downward, int rightward)
{
  GridDrv *g = (GridDrv *)ttd;
  int n = g->nreq++;
  int top = rect->top, left = rect->left, bottom = tickit_rect_bottom(rect), right = tickit_rect_right(rect);
  /* clamp to the screen: intersection with (0,0,lines,cols) */
  if(top < 0) top = 0;
  if(left < 0) left = 0;
  if(bottom > g->lines) bottom = g->lines;
  if(right > g->cols) right = g->cols;
  bool nonempty = top < bottom && left < right;
  bool accept;
  switch(g->policy) {
    case 'A': accept = true; break;
    case 'R': accept = false; break;
    case 'F': accept = rect->left == 0 && tickit_rect_right(rect) == g->cols && rightward == 0; break;
    case 'S': accept = (n < (int)strlen(g->script)) ? g->script[n] == '1' : true; break;
    case 'K':
    default:
      if(!downward && !rightward) accept = true;
      else if(!nonempty) accept = false;
      else if(abs(downward) >= bottom - top || abs(rightward) >= right - left) accept = false;
      else if(left == 0 && right == g->cols && rightward == 0) accept = true;
      else if(right == g->cols && downward == 0) accept = true;
      else accept = false;
  }
  if(!accept) return false;
  if(!nonempty) return true;
  int h = bottom - top, w = right - left;
  int *tmp = malloc(sizeof(int) * h * w);
  for(int y = 0; y < h; y++)
    for(int x = 0; x < w; x++) {
      int sy = y + downward, sx = x + rightward;
      tmp[y*w + x] = (sy >= 0 && sy < h && sx >= 0 && sx < w) ? g->cells[(top+sy) * g->cols + left+sx] : ' ';
    }
  for(int y = 0; y < h; y++)
    for(int x = 0; x < w; x++)
      g->cells[(top+y) * g->cols + left+x] = tmp[y*w + x];
  free(tmp);
  return true;
}
static bool gd_erasech(TickitTermDriver *ttd, int count, TickitMaybeBool moveend)
{
  GridDrv *g = (GridDrv *)ttd;
  int right = g->col + count;
  GBOUND(right, 0, g->cols);
  if(g->line >= 0 && g->line < g->lines)
    for(int c = g->col < 0 ? 0 : g->col; c < right; c++) g->cells[g->line * g->cols + c] = ' ';
  if(moveend != TICKIT_NO) g->col = right;
  return true;
}
static bool gd_clear(TickitTermDriver *ttd)
{
  GridDrv *g = (GridDrv *)ttd;
  for(int i = 0; i < g->lines * g->cols; i++) g->cells[i] = ' ';
  return true;
}
static bool gd_chpen(TickitTermDriver *ttd, const TickitPen *delta, const TickitPen *final) { return true; }
static bool gd_getctl_int(TickitTermDriver *ttd, TickitTermCtl ctl, int *value)
{
  GridDrv *g = (GridDrv *)ttd;
  switch(ctl) {
    case TICKIT_TERMCTL_CURSORVIS:   *value = g->cvis; return true;
    case TICKIT_TERMCTL_CURSORBLINK: *value = g->cblink; return true;
    case TICKIT_TERMCTL_CURSORSHAPE: *value = g->cshape; return true;
    case TICKIT_TERMCTL_COLORS:      *value = 256; return true;
    default: return false;
  }
}
static bool gd_setctl_int(TickitTermDriver *ttd, TickitTermCtl ctl, int value)
{
  GridDrv *g = (GridDrv *)ttd;
  switch(ctl) {
    case TICKIT_TERMCTL_CURSORVIS:   g->cvis = !!value; break;
    case TICKIT_TERMCTL_CURSORBLINK: g->cblink = !!value; break;
    case TICKIT_TERMCTL_CURSORSHAPE: g->cshape = value; break;
    case TICKIT_TERMCTL_ALTSCREEN:
    case TICKIT_TERMCTL_MOUSE: break;
    default: return false;
  }
  return true;
}
static bool gd_setctl_str(TickitTermDriver *ttd, TickitTermCtl ctl, const char *value) { return false; }
static TickitTermDriverVTable gd_vtable = {
  .destroy = gd_destroy, .print = gd_print, .goto_abs = gd_goto_abs, .move_rel = gd_move_rel,
  .scrollrect = gd_scrollrect, .erasech = gd_erasech, .clear = gd_clear, .chpen = gd_chpen,
  .getctl_int = gd_getctl_int, .setctl_int = gd_setctl_int, .setctl_str = gd_setctl_str,
};

static void gd_resize(GridDrv *g, int nl, int nc)
{
  int *n = malloc(sizeof(int) * (nl * nc > 0 ? nl * nc : 1));
  for(int y = 0; y < nl; y++)
    for(int x = 0; x < nc; x++)
      n[y*nc + x] = (y < g->lines && x < g->cols) ? g->cells[y * g->cols + x] : ' ';
  free(g->cells);
  g->cells = n; g->lines = nl; g->cols = nc;
  GBOUND(g->line, 0, nl-1); GBOUND(g->col, 0, nc-1);
}

/* ------------------------------------------------------------------------------------ */
/* harness state                                                                         */

#define MAXW 24
#define MAXOPS 64
#define MAXLOG 4096

typedef struct { char k; int a, b, c, d; } Dop;
typedef struct {
  TickitWindow *win;      /* NULL = no such window (never created, or destroyed) */
  int dead;               /* closed, or below a closed window: later ops skip it */
  int closed;             /* tickit_window_close was called on it */
  int claim;
  int nprog; Dop prog[MAXOPS];
  int mu_cls, mu_act, mu_tgt, mu_armed;
  /* calls made from inside the expose (0), focus (1) and geomchange (2) handlers */
  int br;   /* brackets around the handler's drawing: 1 savepen..restore, 2 save..restore, 4 savepen..restore around every call */
  int nact[4]; struct { char k[3]; int w, t, l, h, c; } act[4][16];   /* 0 expose, 1 focus IN about itself, 2 geomchange, 3 focus IN about a child */
} HW;
static HW hw[MAXW];
static int order[MAXW * 4], norder;  /* creation order */

typedef struct { int id, t, l, h, w, d, r, gen; } ScrollRec;
static ScrollRec srec[512]; static int nsrec, nsrec_printed, gen;

static char tk;
static TickitTerm *tt;
static TickitMockTerm *mt;
static GridDrv *gd;
static TickitWindow *root;

static char xlog[MAXLOG], flog[MAXLOG], ilog[MAXLOG];
static size_t xlen, flen, ilen;
#define LOGF(buf, len, ...) do { if(len < MAXLOG - 64) len += snprintf(buf + len, MAXLOG - len, __VA_ARGS__); } while(0)

static int id_of(TickitWindow *w)
{
  if(!w) return -1;
  for(int i = 0; i < MAXW; i++) if(hw[i].win == w) return i;
  return -2;
}

static int posmod(long x, int m) { return (int)(((x % m) + m) % m); }
static long app_mix(long id, long l, long c)
{ return id * id * 7 + id * 29 + l * l * 11 + l * 13 + c * c * 3 + c * 17 + l * c * 5 + id * l * 3 + id * c; }
static int app_base(int id, int l, int c) { return 48 + posmod(app_mix(id, l, c), 75); }
static int app_fresh(int g, int id, int l, int c) { return 48 + posmod((long)g * g * 19 + (long)g * 41 + 13 + app_mix(id, l, c), 75); }
static int app_at(int id, int l, int c)
{
  for(int k = nsrec; k > 0; k--) {
    ScrollRec *s = &srec[k-1];
    if(s->id != id) continue;
    if(l < s->t || l >= s->t + s->h || c < s->l || c >= s->l + s->w) continue;
    int l2 = l + s->d, c2 = c + s->r;
    if(l2 < s->t || l2 >= s->t + s->h || c2 < s->l || c2 >= s->l + s->w) return app_fresh(s->gen, id, l, c);
    l = l2; c = c2;
  }
  return app_base(id, l, c);
}

/* ------------------------------------------------------------------------------------ */
/* handlers                                                                              */

static void do_mutation(HW *h, int cls);

static void do_close(int id);
static int flush_depth;   /* calls from expose handlers are made at the outermost flush only */
static void run_actions(HW *h, int kind)
{
  for(int k = 0; k < h->nact[kind]; k++) {
    int w = h->act[kind][k].w;
    if(w < 0 || w >= MAXW || !hw[w].win || hw[w].dead) continue;
    TickitWindow *tw = hw[w].win;
    const char *a = h->act[kind][k].k;
    if(!strcmp(a, "ea")) tickit_window_expose(tw, NULL);
    else if(!strcmp(a, "ex")) { TickitRect er = { .top = h->act[kind][k].t, .left = h->act[kind][k].l, .lines = h->act[kind][k].h, .cols = h->act[kind][k].c };
                                tickit_window_expose(tw, &er); }
    else if(!strcmp(a, "sh")) tickit_window_show(tw);
    else if(!strcmp(a, "hi")) tickit_window_hide(tw);
    else if(!strcmp(a, "ra")) tickit_window_raise(tw);
    else if(!strcmp(a, "rf")) tickit_window_raise_to_front(tw);
    else if(!strcmp(a, "lo")) tickit_window_lower(tw);
    else if(!strcmp(a, "lb")) tickit_window_lower_to_back(tw);
    else if(!strcmp(a, "fl")) { flush_depth++; tickit_window_flush(root); flush_depth--; }
    else if(!strcmp(a, "rg")) {
      TickitRect old = tickit_window_get_geometry(tw);
      tickit_window_set_geometry(tw, (TickitRect){ .top = h->act[kind][k].t, .left = h->act[kind][k].l, .lines = h->act[kind][k].h, .cols = h->act[kind][k].c });
      TickitWindow *p = tickit_window_parent(tw);
      if(p) { TickitRect now = tickit_window_get_geometry(tw); tickit_window_expose(p, &old); tickit_window_expose(p, &now); }
    }
    else if(w > 0 && (!strcmp(a, "xc") || !strcmp(a, "xd"))) {
      /* close; xd: and drop both references, so that the window is destroyed */
      do_close(w);
      if(a[1] == 'd') { hw[w].win = NULL; tickit_window_unref(tw); tickit_window_unref(tw); }
    }
  }
}

static int on_expose(TickitWindow *win, TickitEventFlags flags, void *_info, void *data)
{
  if(!(flags & TICKIT_EV_FIRE)) return 0;
  HW *h = data; int id = (int)(h - hw);
  TickitExposeEventInfo *info = _info;
  TickitRenderBuffer *rb = info->rb;
  TickitRect r = info->rect;
  LOGF(xlog, xlen, "%s%d:%d,%d,%d,%d", xlen ? ";" : "", id, r.top, r.left, r.lines, r.cols);
  Dop dflt = { 'p', 0, 0, 0, 0 };
  int n = h->nprog ? h->nprog : 1;
  if(h->br & 1) tickit_renderbuffer_savepen(rb);
  if(h->br & 2) tickit_renderbuffer_save(rb);
  for(int k = 0; k < n; k++) {
    Dop *o = h->nprog ? &h->prog[k] : &dflt;
    if(h->br & 4) tickit_renderbuffer_savepen(rb);
    switch(o->k) {
      case 'p':
        for(int l = r.top; l < r.top + r.lines; l++) {
          if(l & 1)
            for(int c = r.left; c < r.left + r.cols; c++) tickit_renderbuffer_char_at(rb, l, c, app_at(id, l, c));
          else {
            char buf[256]; int m = 0;
            for(int c = r.left; c < r.left + r.cols && m < 255; c++) buf[m++] = (char)app_at(id, l, c);
            if(m) tickit_renderbuffer_textn_at(rb, l, r.left, buf, m);
          }
        }
        break;
      case 't': {
        char buf[256]; int m = 0;
        for(int c = o->b; c < o->b + o->c && m < 255; c++) buf[m++] = (char)app_at(id, o->a, c);
        if(m) tickit_renderbuffer_textn_at(rb, o->a, o->b, buf, m);
        break;
      }
      case 'e': tickit_renderbuffer_erase_at(rb, o->a, o->b, o->c); break;
      case 'c': tickit_renderbuffer_char_at(rb, o->a, o->b, app_at(id, o->a, o->b)); break;
      case 'h': tickit_renderbuffer_hline_at(rb, o->a, o->b, o->c, TICKIT_LINE_SINGLE, 0); break;
      case 'v': tickit_renderbuffer_vline_at(rb, o->a, o->b, o->c, TICKIT_LINE_SINGLE, 0); break;
      case 'r': { TickitRect er = { .top = o->a, .left = o->b, .lines = o->c, .cols = o->d };
                  tickit_renderbuffer_eraserect(rb, &er); break; }
      case 's': tickit_renderbuffer_skip_at(rb, o->a, o->b, o->c); break;
      case 'k': tickit_renderbuffer_clear(rb); break;
    }
    if(h->br & 4) tickit_renderbuffer_restore(rb);
  }
  if(h->br & 2) tickit_renderbuffer_restore(rb);
  if(h->br & 1) tickit_renderbuffer_restore(rb);
  if(flush_depth <= 1) run_actions(h, 0);
  return 1;
}

static int on_focus(TickitWindow *win, TickitEventFlags flags, void *_info, void *data)
{
  if(!(flags & TICKIT_EV_FIRE)) return 0;
  HW *h = data; int id = (int)(h - hw);
  TickitFocusEventInfo *info = _info;
  LOGF(flog, flen, "%s%d%c%d", flen ? ";" : "", id, info->type == TICKIT_FOCUSEV_IN ? '+' : '-', info->win == win ? id : id_of(info->win));
  if(info->type == TICKIT_FOCUSEV_IN) run_actions(h, info->win == win ? 1 : 3);
  return 1;
}

static int on_geom(TickitWindow *win, TickitEventFlags flags, void *_info, void *data)
{
  if(!(flags & TICKIT_EV_FIRE)) return 0;
  run_actions((HW *)data, 2);
  return 1;
}

static int on_key(TickitWindow *win, TickitEventFlags flags, void *_info, void *data)
{
  if(!(flags & TICKIT_EV_FIRE)) return 0;
  HW *h = data; int id = (int)(h - hw);
  LOGF(ilog, ilen, "%s%d.K", ilen ? ";" : "", id);
  int ret = h->claim & 1;
  do_mutation(h, 0);
  return ret;
}

static int mouse_bit(int type)
{
  switch(type) {
    case TICKIT_MOUSEEV_PRESS: return 1; case TICKIT_MOUSEEV_DRAG: return 2;
    case TICKIT_MOUSEEV_RELEASE: return 3; case TICKIT_MOUSEEV_WHEEL: return 4;
    case TICKIT_MOUSEEV_DRAG_START: return 5; case TICKIT_MOUSEEV_DRAG_OUTSIDE: return 6;
    case TICKIT_MOUSEEV_DRAG_DROP: return 7; case TICKIT_MOUSEEV_DRAG_STOP: return 8;
  }
  return 9;
}
static int on_mouse(TickitWindow *win, TickitEventFlags flags, void *_info, void *data)
{
  if(!(flags & TICKIT_EV_FIRE)) return 0;
  HW *h = data; int id = (int)(h - hw);
  TickitMouseEventInfo *info = _info;
  int bit = mouse_bit(info->type);
  LOGF(ilog, ilen, "%s%d.%d.%d.%d.%d", ilen ? ";" : "", id, bit, info->button, info->line, info->col);
  int ret = (h->claim >> bit) & 1;
  do_mutation(h, 1);
  return ret;
}

static void mark_dead(TickitWindow *w)
{
  int id = id_of(w);
  if(id >= 0) hw[id].dead = 1;
  for(TickitWindow *c = w->first_child; c; c = c->next) mark_dead(c);
}

static void do_close(int id)
{
  mark_dead(hw[id].win);
  hw[id].closed = 1;
  tickit_window_close(hw[id].win);
}

static void do_mutation(HW *h, int cls)
{
  if(!h->mu_armed || h->mu_cls != cls) return;
  h->mu_armed = 0;
  int t = h->mu_tgt;
  if(t <= 0 || t >= MAXW || !hw[t].win || hw[t].dead) return;
  do_close(t);
  if(h->mu_act == 2) {
    /* drop both references: the window is destroyed now */
    TickitWindow *w = hw[t].win;
    hw[t].win = NULL;
    tickit_window_unref(w);
    tickit_window_unref(w);
  }
}

static void bind_all(int id)
{
  TickitWindow *w = hw[id].win;
  tickit_window_bind_event(w, TICKIT_WINDOW_ON_EXPOSE, 0, &on_expose, &hw[id]);
  tickit_window_bind_event(w, TICKIT_WINDOW_ON_FOCUS, 0, &on_focus, &hw[id]);
  tickit_window_bind_event(w, TICKIT_WINDOW_ON_GEOMCHANGE, 0, &on_geom, &hw[id]);
  tickit_window_bind_event(w, TICKIT_WINDOW_ON_KEY, 0, &on_key, &hw[id]);
  tickit_window_bind_event(w, TICKIT_WINDOW_ON_MOUSE, 0, &on_mouse, &hw[id]);
}

/* ------------------------------------------------------------------------------------ */
/* observations                                                                          */

static int term_lines(void) { int l, c; tickit_term_get_size(tt, &l, &c); return l; }
static int term_cols(void)  { int l, c; tickit_term_get_size(tt, &l, &c); return c; }

/* single-style line glyphs -> segment bits (1 north, 2 east, 4 south, 8 west) -> one character */
static char line_char(int cp)
{
  static const int glyph[16] = { 0, 0x2575, 0x2576, 0x2514, 0x2577, 0x2502, 0x250c, 0x251c,
                                 0x2574, 0x2518, 0x2500, 0x2534, 0x2510, 0x2524, 0x252c, 0x253c };
  static const char *chars = "!\"#$%&'()*+,-{}";
  for(int m = 1; m < 16; m++) if(glyph[m] == cp) return chars[m-1];
  return '~';
}

static char cell_char(int line, int col)
{
  int cp;
  if(tk == 'M') {
    unsigned char buf[16] = { 0 };
    size_t n = tickit_mockterm_get_display_text(mt, (char *)buf, sizeof buf - 1, line, col, 1);
    cp = n == 0 ? 0 : buf[0];
    if(n == 3) cp = ((buf[0] & 0x0f) << 12) | ((buf[1] & 0x3f) << 6) | (buf[2] & 0x3f);
    else if(n >= 2) cp = 0xfffd;
  }
  else
    cp = gd->cells[line * gd->cols + col];
  if(cp == ' ') return '.';
  if(cp >= 0x80) return line_char(cp);
  if(cp < 33 || cp > 126) return '~';
  return (char)cp;
}

static void snap_grid(char *buf, size_t cap)
{
  size_t n = 0;
  int nl = term_lines(), nc = term_cols();
  for(int l = 0; l < nl; l++) {
    if(l && n < cap - 1) buf[n++] = '/';
    for(int c = 0; c < nc && n < cap - 1; c++) buf[n++] = cell_char(l, c);
  }
  buf[n] = 0;
}

static void print_tree(TickitWindow *w)
{
  int fl = (w->is_visible ? 1 : 0) | (w->steal_input ? 2 : 0) | (w->focus_child_notify ? 4 : 0) |
           (w->is_focused ? 8 : 0) | (w->cursor.visible ? 16 : 0);
  TickitRect r = tickit_window_get_geometry(w);
  printf("%d:%d:%d:%d:%d:%d:%d:%d:%d:%d:%d[", id_of(w), r.top, r.left, r.lines, r.cols, fl,
         id_of(w->focused_child), w->cursor.line, w->cursor.col, (int)w->cursor.shape, (int)w->cursor.blink);
  size_t n = tickit_window_children(w);
  TickitWindow **kids = malloc(sizeof(TickitWindow *) * (n + 1));
  n = tickit_window_get_children(w, kids, n);
  for(size_t i = 0; i < n; i++) print_tree(kids[i]);
  free(kids);
  printf("]");
}

static void print_cursor(void)
{
  int vis = 0, shape = 0, blink = 0, line = -1, col = -1;
  tickit_term_getctl_int(tt, TICKIT_TERMCTL_CURSORVIS, &vis);
  tickit_term_getctl_int(tt, TICKIT_TERMCTL_CURSORSHAPE, &shape);
  tickit_term_getctl_int(tt, TICKIT_TERMCTL_CURSORBLINK, &blink);
  if(tk == 'M') tickit_mockterm_get_position(mt, &line, &col);
  else { line = gd->line; col = gd->col; }
  if(vis) printf(" C=1,%d,%d,%d,%d", line, col, shape, blink);
  else    printf(" C=0");
}

/* ------------------------------------------------------------------------------------ */
/* the interpreter                                                                       */

static int win_ok(int id) { return id >= 0 && id < MAXW && hw[id].win && !hw[id].dead; }

static void add_scroll(int id, TickitRect rc, int d, int r)
{
  if(nsrec < 512) srec[nsrec++] = (ScrollRec){ id, rc.top, rc.left, rc.lines, rc.cols, d, r, gen };
}

static void geom_exposes(int id, TickitRect old, int ex)
{
  /* a geomchange handler may have closed or destroyed the window */
  if(!hw[id].win || hw[id].dead) return;
  TickitWindow *p = tickit_window_parent(hw[id].win);
  if(ex && p) {
    TickitRect now = tickit_window_get_geometry(hw[id].win);
    tickit_window_expose(p, &old);
    tickit_window_expose(p, &now);
  }
}

static int run_case(void)
{
  int i = 0;
  if(vh_ntok < 5 || strcmp(vh_tok[0], "W")) return -1;
  memset(hw, 0, sizeof hw); flush_depth = 0; norder = 0; nsrec = 0; nsrec_printed = 0; gen = 0;
  xlen = flen = ilen = 0; xlog[0] = flog[0] = ilog[0] = 0;
  tk = vh_tok[1][0];
  int nl = vh_int(2), nc = vh_int(3);
  const char *pol = vh_tok[4];
  i = 5;
  mt = NULL; gd = NULL;
  if(tk == 'M') {
    mt = tickit_mockterm_new(nl, nc);
    tt = (TickitTerm *)mt;
  }
  else {
    gd = calloc(1, sizeof *gd);
    gd->super.vtable = &gd_vtable;
    gd->lines = nl; gd->cols = nc;
    gd->cells = malloc(sizeof(int) * nl * nc);
    for(int k = 0; k < nl * nc; k++) gd->cells[k] = ' ';
    gd->line = gd->col = -1;
    gd->policy = pol[0]; gd->script = pol + 1;
    tt = tickit_term_build(&(struct TickitTermBuilder){ .driver = &gd->super });
    tickit_term_set_size(tt, nl, nc);
  }
  root = tickit_window_new_root(tt);
  hw[0].win = root;
  bind_all(0);
  order[norder++] = 0;

  int first = 1;
#define SEP() do { if(!first) putchar(' '); first = 0; } while(0)

  while(i < vh_ntok) {
    const char *o = vh_tok[i];
#define A(k) ((int)vh_int(i + (k)))
    if(!strcmp(o, "PR")) {
      int id = A(1), n = A(2); i += 3;
      HW *h = (id >= 0 && id < MAXW) ? &hw[id] : NULL;
      for(int k = 0; k < n && i < vh_ntok; k++) {
        Dop d = { vh_tok[i][0], 0, 0, 0, 0 };
        int na = 0;
        switch(d.k) { case 'p': case 'k': na = 0; break; case 'c': na = 2; break; case 'r': na = 4; break; default: na = 3; }
        if(na > 0) d.a = A(1); if(na > 1) d.b = A(2); if(na > 2) d.c = A(3); if(na > 3) d.d = A(4);
        i += 1 + na;
        if(h && h->nprog < MAXOPS) h->prog[h->nprog++] = d;
      }
      continue;
    }
    if(!strcmp(o, "BR")) { if(A(1) >= 0 && A(1) < MAXW) hw[A(1)].br = A(2); i += 3; continue; }
    if(!strcmp(o, "RA") || !strcmp(o, "FA") || !strcmp(o, "GA") || !strcmp(o, "FC")) {
      int kind = o[0] == 'R' ? 0 : o[0] == 'G' ? 2 : o[1] == 'A' ? 1 : 3;
      int id = A(1), n = A(2); i += 3;
      HW *h = (id >= 0 && id < MAXW) ? &hw[id] : NULL;
      for(int k = 0; k < n && i < vh_ntok; k++) {
        const char *a = vh_tok[i];
        int isx = !strcmp(a, "ex") || !strcmp(a, "rg");
        if(h && h->nact[kind] < 16) {
          int m = h->nact[kind];
          strncpy(h->act[kind][m].k, a, 2); h->act[kind][m].k[2] = 0;
          h->act[kind][m].w = A(1);
          if(isx) { h->act[kind][m].t = A(2); h->act[kind][m].l = A(3); h->act[kind][m].h = A(4); h->act[kind][m].c = A(5); }
          h->nact[kind]++;
        }
        i += isx ? 6 : 2;
      }
      continue;
    }
    if(!strcmp(o, "CL")) { if(A(1) >= 0 && A(1) < MAXW) hw[A(1)].claim = A(2); i += 3; continue; }
    if(!strcmp(o, "MU")) {
      if(A(1) >= 0 && A(1) < MAXW) { HW *h = &hw[A(1)]; h->mu_cls = A(2); h->mu_act = A(3); h->mu_tgt = A(4); h->mu_armed = 1; }
      i += 5; continue;
    }
    if(!strcmp(o, "N")) {
      int id = A(1), pid = A(2), fl = A(7);
      if(id > 0 && id < MAXW && !hw[id].win && !hw[id].dead && win_ok(pid)) {
        TickitRect r = { .top = A(3), .left = A(4), .lines = A(5), .cols = A(6) };
        int flags = (fl & 1 ? TICKIT_WINDOW_HIDDEN : 0) | (fl & 2 ? TICKIT_WINDOW_LOWEST : 0) |
                    (fl & 4 ? TICKIT_WINDOW_ROOT_PARENT : 0) | (fl & 8 ? TICKIT_WINDOW_STEAL_INPUT : 0);
        hw[id].win = tickit_window_new(hw[pid].win, r, flags);
        tickit_window_ref(hw[id].win);
        bind_all(id);
        order[norder++] = id;
      }
      i += 8; continue;
    }
    if(!strcmp(o, "X")) { if(A(1) > 0 && win_ok(A(1))) do_close(A(1)); i += 2; continue; }
    if(!strcmp(o, "S")) {
      if(win_ok(A(1))) {
        SEP(); printf("SH W=%d U=", A(1)); print_tree(root);
        tickit_window_show(hw[A(1)].win);
        printf(" T="); print_tree(root);
      }
      i += 2; continue;
    }
    if(!strcmp(o, "H")) {
      if(win_ok(A(1))) {
        SEP(); printf("HI W=%d U=", A(1)); print_tree(root);
        tickit_window_hide(hw[A(1)].win);
        printf(" T="); print_tree(root);
      }
      i += 2; continue;
    }
    if(!strcmp(o, "R"))  { if(win_ok(A(1))) tickit_window_raise(hw[A(1)].win); i += 2; continue; }
    if(!strcmp(o, "RF")) { if(win_ok(A(1))) tickit_window_raise_to_front(hw[A(1)].win); i += 2; continue; }
    if(!strcmp(o, "L"))  { if(win_ok(A(1))) tickit_window_lower(hw[A(1)].win); i += 2; continue; }
    if(!strcmp(o, "LB")) { if(win_ok(A(1))) tickit_window_lower_to_back(hw[A(1)].win); i += 2; continue; }
    if(!strcmp(o, "G")) {
      if(win_ok(A(1))) {
        TickitRect old = tickit_window_get_geometry(hw[A(1)].win);
        tickit_window_set_geometry(hw[A(1)].win, (TickitRect){ .top = A(2), .left = A(3), .lines = A(4), .cols = A(5) });
        geom_exposes(A(1), old, A(6));
      }
      i += 7; continue;
    }
    if(!strcmp(o, "MV")) {
      if(win_ok(A(1))) {
        TickitRect old = tickit_window_get_geometry(hw[A(1)].win);
        tickit_window_reposition(hw[A(1)].win, A(2), A(3));
        geom_exposes(A(1), old, A(4));
      }
      i += 5; continue;
    }
    if(!strcmp(o, "RZ")) {
      if(win_ok(A(1))) {
        TickitRect old = tickit_window_get_geometry(hw[A(1)].win);
        tickit_window_resize(hw[A(1)].win, A(2), A(3));
        geom_exposes(A(1), old, A(4));
      }
      i += 5; continue;
    }
    if(!strcmp(o, "E")) {
      if(win_ok(A(1))) { TickitRect r = { .top = A(2), .left = A(3), .lines = A(4), .cols = A(5) }; tickit_window_expose(hw[A(1)].win, &r); }
      i += 6; continue;
    }
    if(!strcmp(o, "EA")) { if(win_ok(A(1))) tickit_window_expose(hw[A(1)].win, NULL); i += 2; continue; }
    if(!strcmp(o, "F")) {
      char before[2048]; snap_grid(before, sizeof before);
      xlen = 0; xlog[0] = 0;
      /* the state right before the flush: tree, pending damage */
      SEP(); printf("F U="); print_tree(root);
      {
        TickitRootWindow *rw = WINDOW_AS_ROOT(root);
        size_t nd = tickit_rectset_rects(rw->damage);
        printf(" P=");
        if(!nd) printf("-");
        for(size_t k = 0; k < nd; k++) {
          TickitRect dr; tickit_rectset_get_rect(rw->damage, k, &dr);
          printf("%s%d,%d,%d,%d", k ? ";" : "", dr.top, dr.left, dr.lines, dr.cols);
        }
      }
      flush_depth = 1; tickit_window_flush(root); flush_depth = 0;
      char after[2048]; snap_grid(after, sizeof after);
      printf(" T="); print_tree(root);
      printf(" B=%s G=%s X=%s", before, after, xlen ? xlog : "-");
      print_cursor();
      printf(" A=");
      if(nsrec == nsrec_printed) printf("-");
      for(int k = nsrec_printed; k < nsrec; k++)
        printf("%s%d,%d,%d,%d,%d,%d,%d,%d", k > nsrec_printed ? ";" : "", srec[k].id, srec[k].t, srec[k].l, srec[k].h, srec[k].w, srec[k].d, srec[k].r, srec[k].gen);
      nsrec_printed = nsrec;
      {
        /* pending damage and the flags, read from the root window's internals */
        TickitRootWindow *rw = WINDOW_AS_ROOT(root);
        size_t nd = tickit_rectset_rects(rw->damage);
        printf(" D=");
        if(!nd) printf("-");
        for(size_t k = 0; k < nd; k++) {
          TickitRect dr; tickit_rectset_get_rect(rw->damage, k, &dr);
          printf("%s%d,%d,%d,%d", k ? ";" : "", dr.top, dr.left, dr.lines, dr.cols);
        }
        printf(" N=%d%d%d", rw->needs_expose ? 1 : 0, rw->needs_restore ? 1 : 0, rw->needs_later_processing ? 1 : 0);
      }
      i += 1; continue;
    }
    if(!strcmp(o, "SC") || !strcmp(o, "SK")) {
      gen++;
      if(win_ok(A(1))) {
        TickitWindow *w = hw[A(1)].win;
        TickitRect g = tickit_window_get_geometry(w);
        if(o[1] == 'C') tickit_window_scroll(w, A(2), A(3));
        else {
          tickit_window_scroll_with_children(w, A(2), A(3));
          size_t n = tickit_window_children(w);
          TickitWindow **kids = malloc(sizeof(TickitWindow *) * (n + 1));
          n = tickit_window_get_children(w, kids, n);
          for(size_t k = 0; k < n; k++) {
            TickitRect cr = tickit_window_get_geometry(kids[k]);
            cr.top -= A(2); cr.left -= A(3);
            tickit_window_set_geometry(kids[k], cr);
          }
          free(kids);
        }
        add_scroll(A(1), (TickitRect){ .top = 0, .left = 0, .lines = g.lines, .cols = g.cols }, A(2), A(3));
      }
      i += 4; continue;
    }
    if(!strcmp(o, "SR")) {
      gen++;
      if(win_ok(A(1))) {
        TickitWindow *w = hw[A(1)].win;
        TickitRect g = tickit_window_get_geometry(w);
        TickitRect self = { .top = 0, .left = 0, .lines = g.lines, .cols = g.cols };
        TickitRect rc = { .top = A(2), .left = A(3), .lines = A(4), .cols = A(5) };
        tickit_window_scrollrect(w, &rc, A(6), A(7), NULL);
        TickitRect k;
        if(tickit_rect_intersect(&k, &self, &rc)) add_scroll(A(1), k, A(6), A(7));
      }
      i += 8; continue;
    }
    if(!strcmp(o, "TR")) {
      if(tk == 'M') tickit_mockterm_resize(mt, A(1), A(2));
      else if(A(1) != gd->lines || A(2) != gd->cols) { gd_resize(gd, A(1), A(2)); tickit_term_set_size(tt, A(1), A(2)); }
      i += 3; continue;
    }
    if(!strcmp(o, "TF")) {
      SEP(); printf("TF T="); print_tree(root);
      flen = 0; flog[0] = 0;
      if(win_ok(A(1))) tickit_window_take_focus(hw[A(1)].win);
      printf(" E=%s", flen ? flog : "-");
      i += 2; continue;
    }
    if(!strcmp(o, "CP")) { if(win_ok(A(1))) tickit_window_set_cursor_position(hw[A(1)].win, A(2), A(3)); i += 4; continue; }
    if(!strcmp(o, "CV")) { if(win_ok(A(1))) tickit_window_set_cursor_visible(hw[A(1)].win, A(2)); i += 3; continue; }
    if(!strcmp(o, "CS")) { if(win_ok(A(1))) tickit_window_set_cursor_shape(hw[A(1)].win, A(2)); i += 3; continue; }
    if(!strcmp(o, "CB")) { if(win_ok(A(1))) tickit_window_setctl_int(hw[A(1)].win, TICKIT_WINCTL_CURSORBLINK, A(2)); i += 3; continue; }
    if(!strcmp(o, "FN")) { if(win_ok(A(1))) tickit_window_set_focus_child_notify(hw[A(1)].win, A(2)); i += 3; continue; }
    if(!strcmp(o, "ST")) { if(win_ok(A(1))) tickit_window_set_steal_input(hw[A(1)].win, A(2)); i += 3; continue; }
    if(!strcmp(o, "K")) {
      SEP(); printf("K T="); print_tree(root);
      ilen = 0; ilog[0] = 0;
      TickitKeyEventInfo info = { .type = TICKIT_KEYEV_TEXT, .mod = 0, .str = "A" };
      tickit_term_emit_key(tt, &info);
      printf(" L=%s", ilen ? ilog : "-");
      i += 1; continue;
    }
    if(!strcmp(o, "MS")) {
      static const int types[] = { 0, TICKIT_MOUSEEV_PRESS, TICKIT_MOUSEEV_DRAG, TICKIT_MOUSEEV_RELEASE, TICKIT_MOUSEEV_WHEEL };
      SEP(); printf("MS T="); print_tree(root);
      ilen = 0; ilog[0] = 0;
      TickitMouseEventInfo info = { .type = types[A(1) >= 1 && A(1) <= 4 ? A(1) : 1], .button = A(2), .mod = 0, .line = A(3), .col = A(4) };
      tickit_term_emit_mouse(tt, &info);
      printf(" L=%s", ilen ? ilog : "-");
      i += 5; continue;
    }
    return -2;
  }
  if(first) printf("-");
  printf("\n");
  fflush(stdout);

  /* teardown: drain the restack queue, then drop every reference, parents first */
  flush_depth = 1; tickit_window_flush(root); flush_depth = 0;
  hw[0].win = NULL;
  tickit_window_unref(root);
  for(int k = 1; k < norder; k++) {
    int id = order[k];
    TickitWindow *w = hw[id].win;
    if(!w) continue;
    hw[id].win = NULL;
    tickit_window_unref(w);
    if(hw[id].closed) tickit_window_unref(w);
  }
  tickit_term_unref(tt);
  return 0;
}

static int win_main(void)
{
  while(vh_next()) {
    int rc = run_case();
    if(rc < 0) { printf("ERR case %d\n", rc); fflush(stdout); }
  }
  return 0;
}
